"""C10 - Population bookkeeping on spectra equals explicit index arithmetic, keeps labels (DESIGN.md C10)."""
import ast, re
from sa import generic
from sa.algebra import Rat, Translator, AlgebraError, parse_expr
from sa.extract import single_assignments, inline, names_in
from sa.srcmodel import own_nodes, dotted, positional_params, bind_call
from sa.report import AnalysisError

EXPLANATION = (
    "Decides the index/label plumbing of the bookkeeping methods, for all shapes and argument choices: marginalize sums the "
    "axes and deletes the labels over the SAME descending sorted sequence (so earlier reductions do not shift later axis "
    "numbers); filter_pops marginalises the 1-based complement; combine_two_pops normalises its pair to ascending 0-based "
    "order and applies 'add into the first, delete the second' identically to sample sizes, labels and entry indices, ORs the "
    "masks and accumulates with +=; combine_pops folds from the highest index down; reorder_pops permutes data and labels by "
    "the same gather over newaxes after validating the permutation; in every branch of Misc.combine_pops each loop variable "
    "ranges over the extent of the axis it indexes; scramble_pop_ids pools by the allele total and re-deals with the "
    "multivariate hypergeometric weight prod C(t_a,d_a)/C(T,d). Equality with explicit re-indexing on particular arrays is not decided."
    ' scramble_pop_ids and combine_two_pops are decided by abstract execution (the stores they make), not by the form of their loops.'
    ' R-RANGE: the re-dealing weight of scramble_pop_ids is formed in log space or with exact integers (a floating-point comb/binom/factorial overflows beyond 1029 pooled chromosomes). R-DTYPE: the bookkeeping methods create no array with a narrow or argument-dependent dtype.')
TECHNIQUE = "finite-domain abstract execution of the bookkeeping methods (stores and returned values) + index-name correspondence and sibling consistency of parallel sites"
DECLINED = ["value equality with explicit re-indexing on particular arrays", "commutation with projection/folding as a numerical statement"]

SM = 'dadi.Spectrum_mod'


def desc_sorted(e, name):
    """is `e` a descending sorted traversal of `name`?"""
    t = ast.unparse(e).replace(' ', '')
    return t in ('sorted(%s)[::-1]' % name, 'sorted(%s,reverse=True)' % name, 'reversed(sorted(%s))' % name, 'list(reversed(sorted(%s)))' % name)


def scramble_by_value(rep, prog, m, sc, rel):
    """scramble_pop_ids by the stores it makes (abstract execution for 1-3 populations, folded and not; one symbolic entry per loop, the
    iterables of a loop indexed by one common position): the pooled spectrum receives entry k of the flattened spectrum at the total
    derived count of entry k; the result receives, at the counts of entry k, exp(sum_a lnC(n_a, d_a) - lnC(N, D)) times the pooled value
    at D; a folded input is unfolded first and the result folded.  How the loops are written (zip, enumerate, indices), which of ravel /
    flatten / flat / reshape(-1) is used and how the log-weight is accumulated do not matter."""
    from sa import miniexec as mx
    from sa import alpha as _alpha
    known_ = _alpha.load_table().get('__params__', {}).get(m.rel)
    known_ = set(known_) if known_ is not None else None
    bad = {'pool': [], 'weight': [], 'deal': [], 'fold': []}
    unrec = []

    def flat_of(v):
        """X when v is a flattened view of X (X.ravel(), numpy.ravel(X), X.flatten(), X.flat, X.reshape(-1))"""
        if not isinstance(v, mx.Sym) or not v.struct:
            return None
        for nm in ('ravel', 'flatten'):
            r = mx.method_call(v, nm)
            if r is not None and mx.show(r) not in ('numpy', 'np') and not v.struct[2]:
                return r
            c = mx.call_of(v, nm)
            if c is not None and v.struct[1].split('.')[0] in ('numpy', 'np') and len(c[0]) == 1:
                return c[0][0]
        if v.struct[0] == 'attr' and v.struct[2] == 'flat':
            return v.struct[1]
        r = mx.method_call(v, 'reshape')
        if r is not None and list(v.struct[2]) in ([-1], [(-1,)]):
            return r
        return None

    def rows_of(v, S, P):
        """X when v is X.reshape(number of entries, P)"""
        r = mx.method_call(v, 'reshape') if isinstance(v, mx.Sym) else None
        if r is None:
            return None
        a = v.struct[2]
        a = a[0] if len(a) == 1 and isinstance(a[0], (tuple, list)) else a
        if len(a) != 2:
            return None
        n_txt = mx.show(a[0]).replace(' ', '')
        ok_n = a[0] == -1 or n_txt in ('numpy.prod(%s.shape)' % S, 'np.prod(%s.shape)' % S, '%s.size' % S, 'len(%s.ravel())' % S)
        ok_p = a[1] == P or a[1] == -1 and a[0] != -1 or mx.show(a[1]) in ('%s.ndim' % S, 'len(%s.shape)' % S, '%s.Npop' % S)
        return r if ok_n and ok_p else None

    def total_form(v, S):
        """v is the total sample size sum(S.sample_sizes)"""
        t = mx.show(v).replace(' ', '')
        return t in ('numpy.sum(%s.sample_sizes)' % S, 'np.sum(%s.sample_sizes)' % S, '%s.sample_sizes.sum()' % S, 'sum(%s.sample_sizes)' % S)
    n_runs = 0
    for P in (1, 2, 3):
        for folded in (False, True):
            tag = '%d population%s%s' % (P, 's' if P > 1 else '', ', folded' if folded else '')

            def attr_hook(base, attr):
                return NotImplemented
            it = mx.Interp(prog, m, symbolic_loops=True, known_functions=known_)
            it.array_rows = True
            attrs = {'folded': folded, 'Npop': P, 'ndim': P, 'sample_sizes': mx.Sym('self.sample_sizes', length=P), 'shape': mx.Sym('self.shape', length=P)}
            selfv = mx.Sym('self', truth=True, attrs=attrs)

            def hook(nm, args, kwargs, P=P):
                if nm == 'self.unfold' and not args:
                    return mx.Sym('self.unfold()', truth=True, attrs={'folded': False, 'Npop': P, 'ndim': P, 'sample_sizes': mx.Sym('self.unfold().sample_sizes', length=P),
                                                                    'shape': mx.Sym('self.unfold().shape', length=P)})
                return NotImplemented
            it.call_hook = hook
            try:
                paths = it.run(sc, {'self': selfv, 'mask_corners': mx.Sym('mask_corners')})
            except mx.Undecidable as e:
                unrec.append('%s: %s' % (tag, e))
                continue
            paths = [p_ for p_ in paths if p_[0][0] == 'return']
            if len(paths) != 1:
                unrec.append('%s: %d returning paths' % (tag, len(paths)))
                continue
            n_runs += 1
            outcome, events, _dec = paths[0]
            S = 'self.unfold()' if folded else 'self'
            incs = [e for e in events if e[0] == 'augitem' and e[3] == 'Add']
            if len(incs) == 1:
                # the result is set, not accumulated: every entry must be set.  Recognised incomplete form: a loop over range(n // 2) that
                # sets entry i and its mirror image n - 1 - i and nothing else - the middle entry of an odd number of entries is never set
                half = [e for e in events if e[0] == 'loop' and isinstance(e[3], mx.Sym) and mx.call_of(e[3], 'range') is not None and len(mx.call_of(e[3], 'range')[0]) == 1 and
                        isinstance(mx.call_of(e[3], 'range')[0][0], mx.Sym) and (mx.call_of(e[3], 'range')[0][0].struct or (None,))[0] == 'binop' and mx.call_of(e[3], 'range')[0][0].struct[1] == '//' and
                        mx.call_of(e[3], 'range')[0][0].struct[3] == 2]
                sets = [e for e in events if e[0] == 'setitem' and mx.call_of(e[4], 'zeros') is not None and e[4] is not incs[0][1]]
                if half and len(sets) == 2:
                    n_txt = mx.show(mx.call_of(half[0][3], 'range')[0][0].struct[2])
                    keys = sorted(mx.show(e[2]).replace(' ', '') for e in sets)
                    lv = half[0][2]
                    if lv in keys and any(k_ in ('((%s-1)-%s)' % (n_txt, lv), '(%s-(1+%s))' % (n_txt, lv), '(%s-(%s+1))' % (n_txt, lv), '((%s-%s)-1)' % (n_txt, lv)) for k_ in keys):
                        bad['deal'].append('%s: entries i and %s - 1 - i are set for i < %s // 2 only: the middle entry of an odd number of entries is never set' % (tag, n_txt, n_txt))
                        continue
            if len(incs) != 2:
                unrec.append('%s: %d accumulating stores' % (tag, len(incs)))
                continue
            pool, deal = incs
            # ---- pooling
            B1 = pool[1]
            z = mx.call_of(B1, 'zeros')
            size_ok = z is not None and z[0] and isinstance(z[0][0], mx.Sym) and z[0][0].struct and z[0][0].struct[0] == 'binop' and z[0][0].struct[1] == '+' and \
                ((total_form(z[0][0].struct[2], S) and z[0][0].struct[3] == 1) or (total_form(z[0][0].struct[3], S) and z[0][0].struct[2] == 1))
            if not size_ok:
                bad['pool'].append('%s: pooled spectrum is %s' % (tag, mx.show(B1)[:60]))

            def flat_elem(v):
                if isinstance(v, mx.Sym) and v.struct and v.struct[0] == 'index' and isinstance(v.struct[2], mx.Sym) and v.struct[2].struct is None:
                    b = v.struct[1]
                    x = flat_of(b)
                    if x is not None:
                        return mx.show(x), v.struct[2].text
                    # a slice of the flattened array: only part of the entries
                    if isinstance(b, mx.Sym) and b.struct and b.struct[0] == 'index' and isinstance(b.struct[2], slice) and flat_of(b.struct[1]) is not None:
                        sl = b.struct[2]
                        if not (sl.start in (None, 0) and sl.stop is None and sl.step in (None, 1)):
                            return mx.show(flat_of(b.struct[1])), '%s restricted to [%s:%s]' % (v.struct[2].text, '' if sl.start is None else mx.show(sl.start), '' if sl.stop is None else mx.show(sl.stop))
                        return mx.show(flat_of(b.struct[1])), v.struct[2].text
                return None
            k1, v1 = flat_elem(pool[2]), flat_elem(pool[4])
            if k1 is None or v1 is None:
                unrec.append('%s: pooling store %s += %s' % (tag, mx.show(pool[2])[:40], mx.show(pool[4])[:40]))
                continue
            if 'restricted' in k1[1] or 'restricted' in v1[1]:
                bad['pool'].append('%s: only part of the entries is pooled (%s)' % (tag, k1[1] if 'restricted' in k1[1] else v1[1]))
            elif not (k1[0] == '%s._total_per_entry()' % S and v1[0] == S and k1[1] == v1[1]):
                bad['pool'].append('%s: pooled[%s of entry %s] += %s of entry %s' % (tag, k1[0], k1[1], v1[0], v1[1]))
            # ---- re-dealing
            B2 = deal[1]
            z2 = mx.call_of(B2, 'zeros')
            if not (z2 is not None and z2[0] and mx.show(z2[0][0]) == '%s.shape' % S):
                bad['deal'].append('%s: result starts as %s' % (tag, mx.show(B2)[:50]))
            key = deal[2]
            tk = mx.call_of(key, 'tuple') if isinstance(key, mx.Sym) else None
            row = tk[0][0] if tk is not None and len(tk[0]) == 1 else key
            rowinfo = None
            if isinstance(row, mx.Sym) and row.struct and row.struct[0] == 'index' and isinstance(row.struct[2], mx.Sym) and row.struct[2].struct is None:
                x = rows_of(row.struct[1], S, P)
                if x is not None:
                    rowinfo = (mx.show(x), row.struct[2].text)
            elif isinstance(row, (tuple, list)) and len(row) == P:
                # the counts spelled out one by one
                parts = []
                for a_, c_ in enumerate(row):
                    if isinstance(c_, mx.Sym) and c_.struct and c_.struct[0] == 'index' and c_.struct[2] == a_ and isinstance(c_.struct[1], mx.Sym) and c_.struct[1].struct and c_.struct[1].struct[0] == 'index':
                        x = rows_of(c_.struct[1].struct[1], S, P)
                        parts.append((mx.show(x), mx.show(c_.struct[1].struct[2])) if x is not None else None)
                    else:
                        parts.append(None)
                if all(p_ is not None for p_ in parts) and len(set(parts)) == 1:
                    rowinfo = parts[0]
            if rowinfo is None:
                unrec.append('%s: result indexed by %s' % (tag, mx.show(key)[:60]))
                continue
            if rowinfo[0] != '%s._counts_per_entry()' % S:
                bad['deal'].append('%s: result indexed by the rows of %s' % (tag, rowinfo[0]))
            kk = rowinfo[1]
            row_txt = mx.show(row if not isinstance(row, (tuple, list)) else row[0].struct[1])
            fac = mx.factors(deal[4], '*')
            pooled_reads = [f for f in fac if isinstance(f, mx.Sym) and f.struct and f.struct[0] == 'index' and f.struct[1] is B1]
            weights = [f for f in fac if not any(f is q for q in pooled_reads)]
            if len(pooled_reads) != 1 or len(weights) != 1:
                unrec.append('%s: value added is %s' % (tag, mx.show(deal[4])[:70]))
                continue
            pk = flat_elem(pooled_reads[0].struct[2])
            if pk is None or not (pk[0] == '%s._total_per_entry()' % S and pk[1] == kk):
                bad['deal'].append('%s: entry %s receives the pooled value at %s' % (tag, kk, mx.show(pooled_reads[0].struct[2])[:50]))
            w = weights[0]
            ex = mx.call_of(w, 'exp') if isinstance(w, mx.Sym) else None
            if ex is None or len(ex[0]) != 1:
                unrec.append('%s: weight %s' % (tag, mx.show(w)[:60]))
                continue

            def canon_arg(v):
                if total_form(v, S):
                    return 'N'
                t = mx.show(v)
                mm = re.fullmatch(re.escape(S) + r'\.sample_sizes\[(\d+)\]', t)
                if mm:
                    return 'n%s' % mm.group(1)
                fe = flat_elem(v)
                if fe is not None and fe[0] == '%s._total_per_entry()' % S and fe[1] == kk:
                    return 'D'
                if isinstance(v, mx.Sym) and v.struct and v.struct[0] == 'index' and isinstance(v.struct[2], int) and mx.show(v.struct[1]) == row_txt:
                    return 'd%d' % v.struct[2]
                return '?%s' % t[:40]

            def leaf(v):
                c = mx.call_of(v, '_lncomb') if isinstance(v, mx.Sym) else None
                if c is not None and len(c[0]) == 2 and not c[1]:
                    return Rat.atom('lnC[%s,%s]' % (canon_arg(c[0][0]), canon_arg(c[0][1])))
                sm = mx.call_of(v, 'sum') if isinstance(v, mx.Sym) else None
                if sm is not None and sm[0] and isinstance(sm[0][0], (list, tuple)):
                    tot = Rat.const(0) if len(sm[0]) == 1 else mx.to_rat(sm[0][1], leaf)
                    for x in sm[0][0]:
                        tot = tot + mx.to_rat(x, leaf)
                    return tot
                return None
            try:
                E = mx.to_rat(ex[0][0], leaf)
            except AlgebraError as e_:
                unrec.append('%s: log-weight: %s' % (tag, e_))
                continue
            ref = Rat.const(0) - Rat.atom('lnC[N,D]')
            for a_ in range(P):
                ref = ref + Rat.atom('lnC[n%d,d%d]' % (a_, a_))
            if not E.equals(ref):
                bad['weight'].append('%s: ln weight = %s' % (tag, E.canon()[:120]))
            # ---- result and folding
            res = outcome[1]
            inner = mx.method_call(res, 'fold') if isinstance(res, mx.Sym) else None
            core = inner if inner is not None else res
            ctor = mx.call_of(core, 'Spectrum') if isinstance(core, mx.Sym) else None
            if ctor is None or not ctor[0] or ctor[0][0] is not B2:
                if not (core is B2):
                    bad['deal'].append('%s: returns %s' % (tag, mx.show(res)[:60]))
            if folded != (inner is not None):
                bad['fold'].append('%s: the result is %s' % (tag, 'folded' if inner is not None else 'not folded'))
    def ob(rule, construct, key, holds, what, line):
        if bad[key]:
            rep.ob(rule, construct, False, '; '.join(bad[key])[:400], rel, line, what=what)
        elif unrec:
            rep.ob(rule, construct, False, 'not recognised: ' + '; '.join(unrec)[:300], rel, line, what=what)
        else:
            rep.ob(rule, construct, True, holds + ' (%d worlds executed abstractly)' % n_runs, rel, line, what=what)
    ob('R-IDX', 'scramble_pop_ids pooling', 'pool', 'pooled 1-D spectrum of N+1 cells receives every entry at its total derived count', 'pooling by allele total', sc.lineno)
    ob('R-ALG', 'scramble_pop_ids weight', 'weight', 'ln prob = sum_a lnC(n_a, d_a) - lnC(N, D)', 'multivariate hypergeometric re-dealing weight', sc.lineno)
    ob('R-IDX', 'scramble_pop_ids re-deal', 'deal', 'every entry receives weight * pooled[total]', 'entry (d_1..d_P) gets prob * pooled[d_1+..+d_P]', sc.lineno)
    ob('R-TPL', 'scramble_pop_ids folding', 'fold', 'folded input: unfold, scramble, fold', 'folded spectra handled as fold(scramble(unfold))', sc.lineno)


def check_scramble_range(rep, sc, rel):
    """R-RANGE: the re-dealing weight C(t_1,d_1)...C(t_P,d_P)/C(T,d) is at most one, but its factors are not: a binomial coefficient of
    the pooled sample size T held as a float overflows to inf once T exceeds 1029 chromosomes and the quotient becomes nan (the total
    count is lost).  The weight is therefore formed in log space (_lncomb / gammaln, then one exp), as the projection weights are;
    exact integer coefficients (comb(..., exact=True), math.comb) are also unbounded."""
    bad = []
    for c in own_nodes(sc):
        if not isinstance(c, ast.Call):
            continue
        nm = dotted(c.func) or ''
        last = nm.split('.')[-1]
        if last in ('comb', 'binom', 'factorial') and not nm.startswith('math.'):
            exact = any(k.arg == 'exact' and isinstance(k.value, ast.Constant) and k.value.value is True for k in c.keywords)
            if not exact:
                bad.append((c.lineno, ast.unparse(c)[:70]))
    rep.ob('R-RANGE', 'scramble_pop_ids weight range', not bad,
           'no floating-point binomial coefficient or factorial: the weight is formed in log space' if not bad else
           '; '.join('line %d: `%s` is a floating-point binomial coefficient: it overflows to inf beyond 1029 pooled chromosomes and the quotient of coefficients becomes nan' % b for b in bad[:2]),
           rel, sc.lineno, what='the re-dealing weight stays finite for every sample size (log-space or exact-integer coefficients)')


def check_scramble(rep, sc, rel):
    """scramble_pop_ids: pool by allele total, re-deal with multivariate hypergeometric weights, fold(scramble(unfold)).
    Expressions are compared after resolving local names through their (single, or loop-local sequential) assignments and
    after renaming the spectrum being scrambled (self, or a local bound to self.unfold() / self) to S."""
    from sa.srcmodel import clone
    stm = [x for x in sc.body if not (isinstance(x, ast.Expr) and isinstance(x.value, ast.Constant))]
    # the subject: `if <folded>: X = self.unfold()` [else: X = self]
    subject, flag = None, None
    for x in stm:
        if isinstance(x, ast.If) and len(x.body) == 1 and isinstance(x.body[0], ast.Assign) and ast.unparse(x.body[0].value) == 'self.unfold()' and isinstance(x.body[0].targets[0], ast.Name):
            nm = x.body[0].targets[0].id
            if (not x.orelse and nm == 'self') or (len(x.orelse) == 1 and isinstance(x.orelse[0], ast.Assign) and ast.unparse(x.orelse[0]) == '%s = self' % nm):
                subject, flag = nm, ast.unparse(x.test)
    env0 = {k: v for k, v in single_assignments(sc).items()}
    flag_ok = subject is not None and (flag == 'self.folded' or (flag in env0 and ast.unparse(env0[flag]) == 'self.folded'))

    def resolve(e, env, depth=0):
        class T(ast.NodeTransformer):
            def visit_Name(self, n):
                if isinstance(n.ctx, ast.Load) and n.id in env and depth < 12 and n.id not in (subject, 'self'):
                    return resolve(env[n.id], env, depth + 1)
                if n.id == subject:
                    return ast.Name(id='S', ctx=ast.Load())
                return n
        return T().visit(clone(e))

    def txt(e, env):
        return ast.unparse(resolve(e, env)).replace(' ', '')
    TOTAL = ('numpy.sum(S.sample_sizes)', 'S.sample_sizes.sum()', 'sum(S.sample_sizes)')
    DPE = ('S._total_per_entry().ravel()', 'numpy.ravel(S._total_per_entry())', 'S._total_per_entry().flatten()', 'S._total_per_entry().flat')
    loops = [x for x in stm if isinstance(x, ast.For)]
    if len(loops) != 2 or subject is None:
        raise AnalysisError('scramble_pop_ids: the pooling and re-dealing loops (or the unfolding of a folded input) were not found')
    # ---- pooling
    lp = loops[0]
    okp = False
    if isinstance(lp.iter, ast.Call) and dotted(lp.iter.func) == 'zip' and len(lp.iter.args) == 2 and isinstance(lp.target, ast.Tuple) and len(lp.target.elts) == 2 and len(lp.body) == 1:
        pairs = {txt(a, env0): t_.id for a, t_ in zip(lp.iter.args, lp.target.elts) if isinstance(t_, ast.Name)}
        dname = next((v for k, v in pairs.items() if k in DPE), None)
        cname = pairs.get('S.ravel()') or pairs.get('numpy.ravel(S)') or pairs.get('S.flatten()') or pairs.get('S.flat')
        b = lp.body[0]
        if dname and cname and isinstance(b, ast.AugAssign) and isinstance(b.op, ast.Add) and isinstance(b.target, ast.Subscript) and isinstance(b.target.value, ast.Name) \
                and ast.unparse(b.target.slice) == dname and ast.unparse(b.value) == cname:
            pooled = b.target.value.id
            init = env0.get(pooled)
            okp = init is not None and isinstance(init, ast.Call) and dotted(init.func) in ('numpy.zeros', 'np.zeros') and \
                any(txt(init.args[0], env0) == '%s+1' % t_ for t_ in TOTAL)
    rep.ob('R-IDX', 'scramble_pop_ids pooling', okp, 'pooled 1-D spectrum indexed by the total derived count of each entry', rel, lp.lineno, what='pooling by allele total')
    # ---- re-dealing
    lp2 = loops[1]
    okw = okr = False
    if okp and isinstance(lp2.iter, ast.Call) and dotted(lp2.iter.func) == 'zip' and len(lp2.iter.args) == 2 and isinstance(lp2.target, ast.Tuple) and len(lp2.target.elts) == 2:
        pairs = {txt(a, env0): t_.id for a, t_ in zip(lp2.iter.args, lp2.target.elts) if isinstance(t_, ast.Name)}
        dname = next((v for k, v in pairs.items() if k in DPE), None)
        cpe_ok = ('S._counts_per_entry().reshape(numpy.prod(S.shape),S.ndim)', 'S._counts_per_entry().reshape(S.size,S.ndim)', 'S._counts_per_entry().reshape(-1,S.ndim)',
                  'S._counts_per_entry().reshape((numpy.prod(S.shape),S.ndim))', 'S._counts_per_entry().reshape((S.size,S.ndim))', 'S._counts_per_entry().reshape((-1,S.ndim))')
        cname = next((v for k, v in pairs.items() if k in cpe_ok), None)
        env = {k: v for k, v in env0.items() if k != pooled}
        # counts_per_entry is re-bound from itself in the confirmed form: resolve the chain by hand
        if cname is None:
            chain = [x for x in stm if isinstance(x, ast.Assign) and isinstance(x.targets[0], ast.Name)]
            for a, t_ in zip(lp2.iter.args, lp2.target.elts):
                if isinstance(a, ast.Name) and isinstance(t_, ast.Name):
                    defs = [x for x in chain if x.targets[0].id == a.id]
                    if len(defs) == 2:
                        e2 = dict(env0)
                        e2[a.id] = defs[0].value
                        if txt(defs[1].value, e2) in cpe_ok:
                            cname = t_.id
        incs = [x for x in lp2.body if isinstance(x, ast.AugAssign) and isinstance(x.target, ast.Subscript)]
        if dname and cname and len(incs) == 1 and lp2.body[-1] is incs[0]:
            for x in lp2.body[:-1]:
                if isinstance(x, ast.Assign) and len(x.targets) == 1 and isinstance(x.targets[0], ast.Name):
                    env[x.targets[0].id] = resolve(x.value, env)
                elif isinstance(x, ast.AugAssign) and isinstance(x.target, ast.Name) and isinstance(x.op, (ast.Sub, ast.Add)) and x.target.id in env:
                    env[x.target.id] = ast.BinOp(left=env[x.target.id], op=x.op, right=resolve(x.value, env))
                else:
                    env = None
                    break
            inc = incs[0]
            if env is not None and isinstance(inc.op, ast.Add) and isinstance(inc.target.value, ast.Name):
                out = inc.target.value.id
                oki = ast.unparse(inc.target.slice) == 'tuple(%s)' % cname and env0.get(out) is None
                v = resolve(inc.value, env)
                fac = [v.left, v.right] if isinstance(v, ast.BinOp) and isinstance(v.op, ast.Mult) else []
                pooled_read = [f for f in fac if ast.unparse(f) == '%s[%s]' % (pooled, dname)]
                weight = [f for f in fac if f not in pooled_read]
                okr = oki and len(pooled_read) == 1 and len(weight) == 1
                if okr:
                    w = weight[0]
                    wt = ast.unparse(w).replace(' ', '')
                    ok_forms = ['numpy.exp(sum((_lncomb(t,d)fort,dinzip(S.sample_sizes,%s)))-_lncomb(%s,%s))' % (cname, t_, dname) for t_ in TOTAL]
                    okw = wt in ok_forms or has_weight(w, cname, dname, TOTAL)
                # the accumulator starts as zeros of the spectrum's shape
                accs = [x for x in stm if isinstance(x, ast.Assign) and ast.unparse(x.targets[0]) == out and stm.index(x) < stm.index(lp2)]
                okr = okr and bool(accs) and txt(accs[-1].value, env0) in ('numpy.zeros(S.shape)', 'np.zeros(S.shape)')
    rep.ob('R-ALG', 'scramble_pop_ids weight', okw, 'ln prob = sum_a lnC(t_a, d_a) - lnC(T, d)', rel, lp2.lineno, what='multivariate hypergeometric re-dealing weight')
    rep.ob('R-IDX', 'scramble_pop_ids re-deal', okr, 'every entry receives weight * pooled[total]', rel, lp2.lineno, what='entry (d_1..d_P) gets prob * pooled[d_1+..+d_P]')
    # ---- folding
    from sa.extract import two_way_return
    okf = flag_ok
    tw = two_way_return(stm)
    if tw is not None:
        t_, a, b = tw
        okf = okf and (t_ == flag or t_ == 'self.folded' and subject != 'self') and a.endswith('.fold()') and a[:-7] == b
    else:
        okf = False
    rep.ob('R-TPL', 'scramble_pop_ids folding', okf, 'folded input: unfold, scramble, fold', rel, sc.lineno, what='folded spectra handled as fold(scramble(unfold))')


def has_weight(w, cname, dname, totals):
    """numpy.exp(A - B) with A = sum(_lncomb(t, d) for t, d in zip(S.sample_sizes, counts)) under renaming of the comprehension variables"""
    if not (isinstance(w, ast.Call) and dotted(w.func) in ('numpy.exp', 'np.exp', 'math.exp') and len(w.args) == 1):
        return False
    e = w.args[0]
    if not (isinstance(e, ast.BinOp) and isinstance(e.op, ast.Sub)):
        return False
    A, B = e.left, e.right
    okb = isinstance(B, ast.Call) and dotted(B.func) == '_lncomb' and len(B.args) == 2 and ast.unparse(B.args[0]).replace(' ', '') in totals and ast.unparse(B.args[1]) == dname
    oka = False
    if isinstance(A, ast.Call) and dotted(A.func) in ('sum', 'numpy.sum', 'math.fsum') and len(A.args) == 1 and isinstance(A.args[0], (ast.GeneratorExp, ast.ListComp)):
        g = A.args[0]
        if len(g.generators) == 1 and not g.generators[0].ifs and isinstance(g.generators[0].target, ast.Tuple) and len(g.generators[0].target.elts) == 2:
            tv, dv = [x.id for x in g.generators[0].target.elts]
            it = g.generators[0].iter
            oka = isinstance(it, ast.Call) and dotted(it.func) == 'zip' and [ast.unparse(a) for a in it.args] == ['S.sample_sizes', cname] and \
                isinstance(g.elt, ast.Call) and dotted(g.elt.func) == '_lncomb' and [ast.unparse(a) for a in g.elt.args] == [tv, dv]
    return oka and okb


def check_combine_two(rep, prog, m, c2, rel):
    """combine_two_pops for every ordered pair of 2- and 3-population spectra: abstract execution (concrete pair, symbolic sizes,
    labels and entries; one symbolic iteration of the loop over the entries).  Sizes, labels and the index of every entry must merge
    into the lower of the two axes and drop the higher one; data are accumulated and masks united at the merged index."""
    from sa import miniexec as mx
    from sa import alpha as _alpha
    known_ = _alpha.load_table().get('__params__', {}).get(m.rel)
    known_ = set(known_) if known_ is not None else None
    bad = {'norm': [], 'sizes': [], 'labels': [], 'index': [], 'acc': [], 'res': []}
    n_runs = 0
    for D in (2, 3):
        for a1 in range(1, D + 1):
            for b1 in range(1, D + 1):
                if a1 == b1:
                    continue
                lo, hi = sorted((a1 - 1, b1 - 1))

                def hook(nm, args, kwargs, D=D):
                    if nm in ('np.ndindex', 'numpy.ndindex'):
                        return mx.Sym('ndindex(%s)' % ', '.join(mx.show(x) for x in args), attrs={'__item_length__': D})
                    return NotImplemented
                it = mx.Interp(prog, m, call_hook=hook, known_functions=known_, symbolic_loops=True)
                # labels are concrete strings: however the merged label is spelled ('{0}+{1}'.format, f-string, %, +) it is a string
                LABS = ['pA', 'pB', 'pC', 'pD', 'pE'][:D]
                selfv = mx.Sym('self', truth=True, attrs={'Npop': D, 'ndim': D, 'sample_sizes': mx.Sym('self.sample_sizes', length=D), 'pop_ids': list(LABS),
                                                          'shape': mx.Sym('self.shape', length=D)})
                try:
                    paths = [p_ for p_ in it.run(c2, {'self': selfv, 'tocombine': [a1, b1]}) if p_[0][0] == 'return']
                except mx.Undecidable as e:
                    raise AnalysisError('combine_two_pops is not recognised: %s' % e)
                tagc = '%d populations, combine [%d, %d]' % (D, a1, b1)
                if not paths:
                    bad['norm'].append('%s: raises' % tagc)
                    continue
                n_runs += 1
                mask_form_unknown = []
                for outcome, events, dec in paths:
                    exp_sizes = ['(%s + 1)' % ('(self.sample_sizes[%d] + self.sample_sizes[%d])' % (lo, hi) if k == lo else 'self.sample_sizes[%d]' % k) for k in range(D) if k != hi]
                    zs = [e for e in events if e[0] == 'call' and e[1].split('.')[-1] == 'zeros']
                    shp = None
                    if zs:
                        shp = zs[-1][3].get('shape', zs[-1][2][0] if zs[-1][2] else None)
                    got_sizes = [mx.show(x) for x in shp] if isinstance(shp, (list, tuple)) else None
                    if got_sizes != exp_sizes:
                        alt = [x.replace('(%s + 1)' % ('(self.sample_sizes[%d] + self.sample_sizes[%d])' % (lo, hi)), '((self.sample_sizes[%d] + self.sample_sizes[%d]) + 1)' % (lo, hi)) for x in exp_sizes]
                        if got_sizes != alt:
                            bad['sizes'].append('%s: new shape %s' % (tagc, got_sizes))
                    ctor = [e for e in events if e[0] == 'call' and e[1] in ('Spectrum', 'dadi.Spectrum')]
                    labs = ctor[-1][3].get('pop_ids') if ctor else None
                    if isinstance(labs, list):
                        texts = []
                        for k_, x in enumerate(labs):
                            st_ = x.struct if isinstance(x, mx.Sym) else None
                            if st_ and st_[0] == 'call' and st_[1] == 'str.format' and st_[2][0] == '{0}+{1}':
                                texts.append('+'.join(mx.show(y) for y in st_[2][1:]))
                            else:
                                texts.append(mx.show(x))
                        want = [('%s+%s' % (LABS[lo], LABS[hi]) if k == lo else LABS[k]) for k in range(D) if k != hi]
                        texts = [t_.strip("'") for t_ in texts]
                        if texts != want:
                            bad['labels'].append('%s: labels %s' % (tagc, texts))
                    elif labs is not None and not (isinstance(labs, mx.Sym) and False):
                        bad['labels'].append('%s: labels %s' % (tagc, mx.show(labs)[:60]))
                    incs = [e for e in events if e[0] == 'augitem' and e[3] == 'Add']
                    want_key = ['(index[%d] + index[%d])' % (lo, hi) if k == lo else 'index[%d]' % k for k in range(D) if k != hi]
                    if len(incs) != 1 or [mx.show(x) for x in (incs[0][2] if isinstance(incs[0][2], tuple) else (incs[0][2],))] != want_key:
                        bad['index'].append('%s: entries added at %s' % (tagc, [mx.show(x) for x in incs[0][2]] if incs and isinstance(incs[0][2], tuple) else '?'))
                        continue
                    new_fs = mx.show(incs[0][1])
                    if mx.show(incs[0][4]) != 'self[index]':
                        bad['acc'].append('%s: adds %s' % (tagc, mx.show(incs[0][4])[:40]))
                    ms = [e for e in events if e[0] == 'setitem' and e[1] == new_fs + '.mask']
                    keytxt = ', '.join(want_key)
                    okm_ = len(ms) == 1 and [mx.show(x) for x in (ms[0][2] if isinstance(ms[0][2], tuple) else (ms[0][2],))] == want_key and \
                        sorted(mx.show(ms[0][3]).strip('()').split(' or ')) == sorted(['%s.mask[%s]' % (new_fs, keytxt), 'self.mask[index]'])
                    masked_or = [e for e in events if e[0] == 'augitem' and e[3] == 'BitOr' and mx.show(e[1]) == new_fs + '.mask']
                    if not okm_ and not (len(masked_or) == 1 and mx.show(masked_or[0][4]) == 'self.mask[index]'):
                        mask_form_unknown.append(tagc)
                    lp = [e for e in events if e[0] == 'loop']
                    if len(lp) != 1 or 'self.shape' not in lp[0][1]:
                        bad['acc'].append('%s: loop over %s' % (tagc, [e[1] for e in lp]))
                    if mx.show(outcome[1]) != new_fs or {e[2]: mx.show(e[3]) for e in events if e[0] == 'setattr' and e[1] == new_fs}.get('extrap_x') != 'self.extrap_x':
                        bad['res'].append('%s: result / extrap_x' % tagc)
                if mask_form_unknown:
                    # the mask update is not written as `new = new or source`: decide it by its truth table (the two mask entries concrete)
                    for old_, src_ in ((False, False), (False, True), (True, False), (True, True)):
                        def ih(base, key, old_=old_, src_=src_):
                            if isinstance(base, mx.Sym) and base.text.endswith('.mask') and isinstance(key, (tuple, mx.Sym)):
                                return src_ if base.text == 'self.mask' else old_
                            return NotImplemented
                        it2 = mx.Interp(prog, m, call_hook=hook, known_functions=known_, symbolic_loops=True, index_hook=ih)
                        selfv2 = mx.Sym('self', truth=True, attrs={'Npop': D, 'ndim': D, 'sample_sizes': mx.Sym('self.sample_sizes', length=D), 'pop_ids': mx.Sym('self.pop_ids', length=D),
                                                                   'shape': mx.Sym('self.shape', length=D)})
                        for outcome, events, dec in [p_ for p_ in it2.run(c2, {'self': selfv2, 'tocombine': [a1, b1]}) if p_[0][0] == 'return']:
                            sets = [e[3] for e in events if e[0] == 'setitem' and e[1].endswith('.mask') and not e[1].startswith('self')]
                            final = sets[-1] if sets else old_
                            if final is not (old_ or src_):
                                bad['acc'].append('%s: mask of the merged entry is %s for (already masked=%s, source masked=%s)' % (tagc, final, old_, src_))
    rep.ob('R-IDX', 'combine_two_pops normalisation', not bad['norm'] and not bad['index'], '; '.join((bad['norm'] + bad['index'])[:2]) or 'either order of the pair gives the same merge (%d runs executed abstractly)' % n_runs, rel, c2.lineno,
           what='pair converted to ascending 0-based indices')
    for k, nm in (('sizes', 'sizes'), ('labels', 'labels'), ('index', 'index')):
        rep.ob('R-IDX', 'combine_two_pops %s' % nm, not bad[k], '; '.join(bad[k][:2]) or 'merged into the lower axis of the pair, the higher one removed', rel, c2.lineno, what='%s: add into the first of the pair, then delete the second' % nm)
    rep.ob('R-TPL', 'combine_two_pops accumulation', not bad['acc'] and not bad['index'], '; '.join(bad['acc'][:2]) or 'every source entry is added to its merged index; masks OR-ed', rel, c2.lineno,
           what='explicit re-indexing over all entries with += and mask union')
    rep.ob('R-FLOW', 'combine_two_pops result', not bad['res'] and not bad['sizes'] and not bad['labels'], '; '.join(bad['res'][:2]) or 'result shape from the merged sample sizes; labels copied; extrap_x carried', rel, c2.lineno,
           what='shape, labels and extrap_x')


def check_misc_combine(rep, prog):
    """Misc.combine_pops by what it accumulates (abstract execution for 2 and 3 populations and every pair): entry [i + j (, k)] of the
    result receives entry (i, j (, k)) of the data with i, j on the axes of the pair and k on the remaining axis, every index over the
    whole extent of its axis, the result of shape (extent_a + extent_b - 1 (, extent_rest)) wrapped in a Spectrum.  Transpositions of
    the data, helper functions and numpy.ndindex over trailing axes are followed; the flipped-trace idiom for anti-diagonal sums is
    understood.  Returns False when the function is not of a form this follows (the syntactic rule below then applies)."""
    from sa import miniexec as mx
    from sa import alpha as _alpha
    from sa.algebra import Rat, AlgebraError
    mm = prog.mod('dadi.Misc')
    mc = prog.func('dadi.Misc', 'combine_pops')
    known = _alpha.load_table().get('__params__', {}).get(mm.rel)
    known = set(known) if known is not None else None
    E = lambda k: Rat.atom('n%d' % k) + Rat.const(1)
    results = []
    try:
        for D, pairs in ((2, ([0, 1],)), (3, ([0, 1], [0, 2], [1, 2]))):
            for pair in pairs:
                nd_ranges = {}
                A = mx.Sym('A', attrs={'shape': tuple(mx.Sym('E%d' % k) for k in range(D)), 'ndim': D})

                def shape_of(v):
                    if isinstance(v, mx.Sym) and 'shape' in v.attrs:
                        return v.attrs['shape']
                    rec = mx.method_call(v, 'transpose')
                    if rec is not None:
                        sh = shape_of(rec)
                        perm = v.struct[2]
                        perm = perm[0] if len(perm) == 1 and isinstance(perm[0], (tuple, list)) else perm
                        if sh is None or not all(isinstance(x, int) for x in perm) or sorted(perm) != list(range(len(sh))):
                            return None
                        return tuple(sh[x] for x in perm)
                    c = mx.call_of(v, 'transpose')
                    if c is not None and v.struct[1].split('.')[0] in ('numpy', 'np') and len(c[0]) == 2:
                        sh = shape_of(c[0][0])
                        perm = c[0][1]
                        if sh is None or not isinstance(perm, (tuple, list)) or sorted(perm) != list(range(len(sh))):
                            return None
                        return tuple(sh[x] for x in perm)
                    if isinstance(v, mx.Sym) and v.struct and v.struct[0] == 'index':
                        key = v.struct[2] if isinstance(v.struct[2], tuple) else (v.struct[2],)
                        if all(isinstance(k_, slice) and k_.start is None and k_.stop is None for k_ in key):
                            return shape_of(v.struct[1])
                    return None

                def attr_hook(base, attr):
                    if attr == 'shape':
                        sh = shape_of(base)
                        if sh is not None:
                            return sh
                    if attr == 'ndim':
                        sh = shape_of(base)
                        if sh is not None:
                            return len(sh)
                    return NotImplemented

                def call_hook(nm, args, kwargs):
                    last = nm.split('.')[-1]
                    if last in ('array', 'asarray', 'asanyarray') and nm.split('.')[0] in ('numpy', 'np') and len(args) == 1 and mx.show(args[0]) == 'fs':
                        return A
                    if last == 'ndindex' and nm.split('.')[0] in ('numpy', 'np'):
                        ext = args[0] if len(args) == 1 and isinstance(args[0], (tuple, list)) else args
                        vs = tuple(mx.Sym('nd%d_%d' % (len(nd_ranges), k_)) for k_ in range(len(ext)))
                        for v_, e_ in zip(vs, ext):
                            nd_ranges[v_.text] = e_
                        return [vs]
                    return NotImplemented
                it = mx.Interp(prog, mm, known_functions=known, symbolic_loops=True, attr_hook=attr_hook, call_hook=call_hook)
                fs = mx.Sym('fs', attrs={'sample_sizes': tuple(mx.Sym('n%d' % k) for k in range(D)), 'extrap_x': mx.Sym('fs.extrap_x'), 'ndim': D, 'Npop': D})
                paths = [p for p in it.run(mc, {'fs': fs, 'idx': list(pair)}) if p[0][0] == 'return']
                results.append((D, pair, paths, nd_ranges, A))
    except mx.Undecidable:
        return False
    def leaf(x):
        if isinstance(x, mx.Sym) and not x.struct:
            mE = re.fullmatch(r'E(\d)', x.text)
            if mE:
                return E(int(mE.group(1)))
            if re.fullmatch(r'[A-Za-z_]\w*', x.text):
                return Rat.atom(x.text)
        return None

    from sa import tis

    def resolve_source(v, A, tvars=()):
        """(index per axis of the data array) of the element of v at the implicit positions tvars (sa.tis), else None"""
        try:
            root, idx = tis.at(v, list(tvars), lambda x: x is A)
        except tis.Unfollowed:
            return None
        return idx
    n_ok = 0
    verdicts = []
    for D, pair, paths, nd_ranges, A in results:
        tag = '%dD idx %s' % (D, pair)
        rest = [a for a in range(D) if a not in pair]
        bad = []
        if len(paths) != 1:
            bad.append('%d returning paths' % len(paths))
        for outcome, events, _dec in paths:
            ret = outcome[1]
            sp = mx.call_of(ret, 'Spectrum')
            if sp is None or not sp[0]:
                bad.append('returns %s' % mx.show(ret)[:40])
                continue
            res = sp[0][0]
            sets = {e[2]: mx.show(e[3]) for e in events if e[0] == 'setattr' and e[1] == mx.show(ret)}
            if sets.get('extrap_x') != 'fs.extrap_x':
                bad.append('extrap_x not carried over')
            ranges = {e[2]: e[3] for e in events if e[0] == 'loop' and len(e) > 3}
            try:
                def extent_of(var):
                    """extent the loop variable runs over (from 0), as Rat"""
                    if var in nd_ranges:
                        return mx.to_rat(nd_ranges[var], leaf)
                    itv = ranges.get(var)
                    c = mx.call_of(itv, 'range') if itv is not None else None
                    if c is None or len(c[0]) != 1:
                        raise AlgebraError('loop over %s' % (mx.show(itv) if itv is not None else '?'))
                    return mx.to_rat(c[0][0], leaf)
                zc = mx.call_of(res, 'zeros')
                acc = [(e[2], e[3], e[4]) for e in events if e[0] == 'augitem' and mx.show(e[1]) == mx.show(res)]
                over = []
                for e in events:
                    if e[0] == 'setitem' and mx.show(e[4]) == mx.show(res):
                        # R[key] = R[key] + X  is an accumulation
                        terms = mx.factors(e[3], '+')
                        selfs = [t_ for t_ in terms if isinstance(t_, mx.Sym) and t_.struct and t_.struct[0] == 'index' and mx.show(t_.struct[1]) == mx.show(res) and mx.show(t_.struct[2]) == mx.show(e[2])]
                        rest_ = [t_ for t_ in terms if t_ not in selfs]
                        if len(selfs) == 1 and len(rest_) == 1:
                            acc.append((e[2], 'Add', rest_[0]))
                        else:
                            over.append(e)
                if zc is not None and over:
                    bad.append('the result is overwritten, not accumulated into: %s[%s] = ...' % (mx.show(res)[:20], mx.show(over[0][2])[:30]))
                elif zc is not None and acc:
                    shp = zc[0][0] if zc[0] else zc[1].get('shape')
                    shp = list(shp) if isinstance(shp, (tuple, list)) else [shp]
                    want_shape = [E(pair[0]) + E(pair[1]) - Rat.const(1)] + [E(r) for r in rest]
                    got_shape = [mx.to_rat(x, leaf) for x in shp]
                    if len(got_shape) != len(want_shape) or not all(a_.equals(b_) for a_, b_ in zip(got_shape, want_shape)):
                        bad.append('result shape (%s)' % ', '.join(x.canon() for x in got_shape))
                    if len(acc) != 1 or acc[0][1] != 'Add':
                        bad.append('%d accumulation statements' % len(acc))
                    for akey, _aop, aval in acc[:1]:
                        tkey = list(akey) if isinstance(akey, tuple) else [akey]
                        tkey = tkey + [slice(None)] * (len(shp) - len(tkey))
                        try:
                            tkey, tvars = tis.store_positions(tuple(tkey), lambda ax: shp[ax])
                        except tis.Unfollowed as ex:
                            raise mx.Undecidable(str(ex))
                        for tv_, ext_ in tvars:
                            nd_ranges[tv_.text] = ext_
                        skey = resolve_source(aval, A, [tv_ for tv_, _ in tvars])
                        if skey is None or len(skey) != D or len(tkey) != 1 + len(rest):
                            bad.append('accumulates %s' % mx.show(aval)[:50])
                            continue
                        tk = [mx.to_rat(x, leaf) for x in tkey]
                        sk = [mx.to_rat(x, leaf) for x in skey]
                        if not tk[0].equals(sk[pair[0]] + sk[pair[1]]):
                            bad.append('first index of the result is %s, the pair is indexed by %s and %s' % (tk[0].canon(), sk[pair[0]].canon(), sk[pair[1]].canon()))
                        if rest and not tk[1].equals(sk[rest[0]]):
                            bad.append('second index of the result is %s, the remaining axis is indexed by %s' % (tk[1].canon(), sk[rest[0]].canon()))
                        vars_ = []
                        for ax, r_ in enumerate(sk):
                            ats = list(r_.atoms())
                            if len(ats) != 1 or not r_.equals(Rat.atom(ats[0])):
                                bad.append('axis %d of the data is indexed by %s' % (ax, r_.canon()))
                                continue
                            vars_.append(ats[0])
                            ext = extent_of(ats[0])
                            if not ext.equals(E(ax)):
                                bad.append('index %s of axis %d runs over %s entries' % (ats[0], ax, ext.canon()))
                        if len(set(vars_)) != len(vars_):
                            bad.append('one loop variable indexes two axes')
                else:
                    # anti-diagonal sums by the trace of the flipped array: numpy.array([numpy.trace(X[::-1], offset=o(k)) for k in range(n)])
                    ar = mx.call_of(res, 'array')
                    comp = ar[0][0] if ar and ar[0] else None
                    if not (isinstance(comp, mx.Sym) and comp.struct and comp.struct[0] == 'comp'):
                        raise mx.Undecidable('result %s' % mx.show(res)[:40])
                    elt, itv, var = comp.struct[1], comp.struct[2], comp.struct[3]
                    tc = mx.call_of(elt, 'trace')
                    rg = mx.call_of(itv, 'range')
                    if tc is None or rg is None or len(rg[0]) != 1 or len(tc[0]) != 1:
                        raise mx.Undecidable('comprehension %s' % mx.show(comp)[:40])
                    X = tc[0][0]
                    if not (isinstance(X, mx.Sym) and X.struct and X.struct[0] == 'index' and isinstance(X.struct[2], slice) and X.struct[2].start is None and X.struct[2].stop is None and X.struct[2].step == -1):
                        raise mx.Undecidable('trace of %s' % mx.show(X)[:40])
                    arr = X.struct[1]
                    sh = None
                    # shape of arr: through transpositions of the data array
                    probe = mx.Sym('probe', struct=('index', arr, tuple(mx.Sym('ax%d' % k) for k in range(D))))
                    axes = resolve_source(probe, A)
                    if axes is None:
                        raise mx.Undecidable('trace over %s' % mx.show(arr)[:40])
                    order = [int(mx.show(a)[2:]) for a in axes]          # order[data axis] = position in arr
                    pos_of = {pos: ax for ax, pos in enumerate(order)}
                    a0, a1 = pos_of[0], pos_of[1]
                    if sorted((a0, a1)) != sorted(pair):
                        bad.append('the trace runs over data axes %d and %d' % (a0, a1))
                    off = tc[1].get('offset', 0)
                    # flipped rows: element (r, c) of X[::-1] is (E_a0 - 1 - r, c) of arr; on diagonal `off`: c = r + off, so i + j = E_a0 - 1 + off
                    total = E(a0) - Rat.const(1) + mx.to_rat(off, leaf)
                    if not total.equals(Rat.atom(var)):
                        bad.append('entry %s of the result sums the data over i + j = %s' % (var, total.canon()))
                    if not mx.to_rat(rg[0][0], leaf).equals(E(pair[0]) + E(pair[1]) - Rat.const(1)):
                        bad.append('result has %s entries along the merged axis' % mx.to_rat(rg[0][0], leaf).canon())
            except AlgebraError as e:
                bad.append('not evaluable: %s' % e)
            except mx.Undecidable as e:
                bad.append('not recognised: %s' % e)
        n_ok += 1
        verdicts.append((tag, rest, bad))
    if any('not recognised' in b for _, _, bad in verdicts for b in bad):
        return False         # e.g. delegation to Spectrum.combine_two_pops: the rule below composes that method's summary
    rep.saw_function(mm.rel + ':combine_pops')
    generic.rule_name(rep, prog, mm, mc)
    for tag, rest, bad in verdicts:
        rep.ob('R-IDX', 'Misc.combine_pops %s' % tag, not bad, '; '.join(bad[:2]) if bad else 'result[i + j%s] accumulates data[%s]; every index over the whole axis; shape (E_a + E_b - 1%s)' % (', k' if rest else '', 'i, j on the pair' + (', k on the rest' if rest else ''), ', E_rest' if rest else ''),
               mm.rel, mc.lineno, what='each loop variable ranges over the extent of the axis it indexes; merged index is the sum of the pair; the combined population is on the first axis')
    return True


def run(rep, prog, tier):
    m = prog.mod(SM)
    rel = m.rel
    rep.saw_file(rel)
    for q in ('Spectrum.marginalize', 'Spectrum.filter_pops', 'Spectrum.combine_pops', 'Spectrum.combine_two_pops', 'Spectrum.reorder_pops', 'Spectrum.scramble_pop_ids',
              'Spectrum._counts_per_entry', 'Spectrum._total_per_entry'):
        fn = prog.func(SM, q)
        rep.saw_function(rel + ':' + q)
        generic.rule_name(rep, prog, m, fn)
        generic.rule_def(rep, m, fn)
        generic.rule_dtype(rep, m, fn, 'index totals and re-indexed counts are held in wide fixed types (no wrap-around for large samples, no truncation of non-integer counts)')
    # ---- marginalize ------------------------------------------------------------------------------------------------
    mg = prog.func(SM, 'Spectrum.marginalize')
    loops = [n for n in own_nodes(mg) if isinstance(n, ast.For)]
    sums = [lp for lp in loops if any(isinstance(x, ast.Assign) and 'numpy.sum(' in ast.unparse(x.value) and 'axis=' in ast.unparse(x.value) for x in lp.body)]
    dels = [lp for lp in loops if any(isinstance(x, ast.Delete) for x in lp.body)]
    oks = len(sums) == 1 and desc_sorted(sums[0].iter, 'over') and any(ast.unparse(x) == 'output = numpy.sum(output, axis=%s)' % sums[0].target.id for x in sums[0].body)
    rep.ob('R-IDX', 'marginalize data', oks, 'axes summed over %s' % (ast.unparse(sums[0].iter) if sums else '?'), rel, sums[0].lineno if sums else mg.lineno,
           what='axes are summed in descending order (a reduction does not renumber the axes still to be summed)')
    okd = len(dels) == 1 and desc_sorted(dels[0].iter, 'over') and any(ast.unparse(x) == 'del pop_ids[%s]' % dels[0].target.id for x in dels[0].body)
    rep.ob('R-IDX', 'marginalize labels', okd, 'labels deleted over %s' % (ast.unparse(dels[0].iter) if dels else '?'), rel, dels[0].lineno if dels else mg.lineno,
           what='labels are deleted in the same descending order as the axes')
    t = ast.unparse(mg)
    okc = 'pop_ids = list(self.pop_ids)' in t and 'output.pop_ids = pop_ids' in t and 'output.extrap_x = self.extrap_x' in t and 'output.folded = False' in t
    okf = 'original_folded = self.folded' in t and 'output = self.unfold()' in t and 'return output.fold()' in t and 'output = self.copy()' in t
    rep.ob('R-FLOW', 'marginalize result', okc and okf, 'labels copied (not aliased), extrap_x carried, folded input handled as fold(marginalize(unfold))', rel, mg.lineno, what='labels/extrap_x/folding survive')
    fp = prog.func(SM, 'Spectrum.filter_pops')
    t = ast.unparse(fp)
    # for every non-empty subset (in either order) of the populations of 2- and 3-population spectra: abstract execution; the result
    # is self.marginalize(<the 0-based complement>)
    import itertools
    from sa import miniexec as mx
    mg_params = positional_params(mg)
    badp = []
    for D in (2, 3):
        for r_ in range(1, D + 1):
            for keep in itertools.permutations(range(1, D + 1), r_):
                it = mx.Interp(prog, m)
                try:
                    paths = it.run(fp, {'self': mx.Sym('self', truth=True, attrs={'ndim': D, 'Npop': D}), 'tokeep': list(keep), 'mask_corners': mx.Sym('mask_corners')})
                except mx.Undecidable as e:
                    raise AnalysisError('filter_pops is not recognised: %s' % e)
                for outcome, events, dec in paths:
                    calls = [e for e in events if e[0] == 'call' and e[1] == 'self.marginalize']
                    over = None
                    if len(calls) == 1:
                        over = calls[0][3].get('over', calls[0][2][0] if calls[0][2] else None)
                    want = [k for k in range(D) if (k + 1) not in keep]
                    if outcome[0] != 'return' or over is None or sorted(over) != want or not mx.show(outcome[1]).startswith('self.marginalize('):
                        badp.append('%d populations, keep %s: marginalises %s' % (D, list(keep), over))
    rep.ob('R-IDX', 'Spectrum.filter_pops', not badp, '; '.join(badp[:2]) or 'marginalises the 0-based complement of the 1-based tokeep (all subsets of 2 and 3 populations executed abstractly)', rel, fp.lineno,
           what='filter_pops = marginalize(complement)')
    # ---- combine_two_pops ----------------------------------------------------------------------------------------------
    c2 = prog.func(SM, 'Spectrum.combine_two_pops')
    check_combine_two(rep, prog, m, c2, rel)
    cp = prog.func(SM, 'Spectrum.combine_pops')
    # every set of two or more of up to five populations, in ascending and in shuffled order, with and without labels: the chain of
    # pairwise merges (abstract execution; the pairwise merge itself is summarised above)
    badc, badl, n_runs = [], [], 0
    from sa import alpha as _alpha
    known_cp = _alpha.load_table().get('__params__', {}).get(rel)
    known_cp = set(known_cp) if known_cp is not None else None
    try:
        for P in (2, 3, 4, 5):
            for r_ in range(2, P + 1):
                for comb_ in itertools.combinations(range(1, P + 1), r_):
                    for order in (list(comb_), list(comb_)[::-1], list(comb_)[1:] + list(comb_)[:1]):
                        for labelled in (True, False):
                            ids = ['pop%d' % k for k in range(1, P + 1)] if labelled else None
                            it = mx.Interp(prog, m, known_functions=known_cp)
                            paths = [p_ for p_ in it.run(cp, {'self': mx.Sym('self', truth=True, attrs={'pop_ids': ids, 'Npop': P, 'ndim': P}), 'tocombine': list(order)}) if p_[0][0] == 'return']
                            n_runs += 1
                            tag = '%d populations, tocombine=%s%s' % (P, order, '' if labelled else ', no labels')
                            if len(paths) != 1:
                                badc.append('%s: %d returning paths' % (tag, len(paths)))
                                continue
                            outcome, events, _d = paths[0]
                            # unwind result = (((self.c2p(a)).c2p(b)) ...)
                            chain = []
                            v = outcome[1]
                            while mx.method_call(v, 'combine_two_pops') is not None:
                                a_ = v.struct[2]
                                chain.append(list(a_[0]) if len(a_) == 1 and isinstance(a_[0], (list, tuple)) else None)
                                v = mx.method_call(v, 'combine_two_pops')
                            chain.reverse()
                            lo = min(order)
                            want = [[lo, hi] for hi in sorted(order, reverse=True) if hi != lo]
                            if mx.show(v) != 'self' or [sorted(c_) if c_ else c_ for c_ in chain] != want:
                                badc.append('%s: merges %s' % (tag, chain))
                            sets = [e for e in events if e[0] == 'setitem' and mx.show(e[4]).endswith('.pop_ids')]
                            if labelled:
                                wl = '+'.join('pop%d' % k for k in sorted(order))
                                if len(sets) != 1 or sets[0][2] != lo - 1 or sets[0][3] != wl or not mx.show(sets[0][4]).startswith(mx.show(outcome[1])[:20]):
                                    badl.append('%s: label %s' % (tag, [(mx.show(e[2]), mx.show(e[3])) for e in sets]))
                            elif sets:
                                badl.append('%s: labels written although the spectrum has none' % tag)
    except mx.Undecidable as e:
        badc.append('combine_pops is not recognised: %s' % e)
    rep.ob('R-IDX', 'Spectrum.combine_pops', not badc, '; '.join(badc[:2]) if badc else 'merges the highest remaining population into the lowest, from the top down (%d runs)' % n_runs, rel, cp.lineno,
           what='descending merge keeps the remaining 1-based numbers valid')
    rep.ob('R-IDX', 'combine_pops label', not badl, '; '.join(badl[:2]) if badl else 'label of the merged population joins the original labels in ascending order, in the slot of the lowest', rel, cp.lineno, what='merged label')
    # ---- reorder_pops -------------------------------------------------------------------------------------------------------
    ro = prog.func(SM, 'Spectrum.reorder_pops')
    t = ast.unparse(ro)
    # every permutation of 2 and 3 populations, and a few non-permutations: abstract execution
    badv, badd = [], []
    for D in (2, 3):
        cases = [list(p_) for p_ in itertools.permutations(range(1, D + 1))] + [[1] * D, list(range(0, D)), list(range(1, D)), list(range(1, D + 2)), list(range(2, D + 2))]
        for order in cases:
            valid = sorted(order) == list(range(1, D + 1))
            it = mx.Interp(prog, m)
            try:
                paths = it.run(ro, {'self': mx.Sym('self', truth=True, attrs={'ndim': D, 'Npop': D, 'pop_ids': mx.Sym('self.pop_ids', length=D)}), 'neworder': list(order)})
            except mx.Undecidable as e:
                raise AnalysisError('reorder_pops is not recognised: %s' % e)
            for outcome, events, dec in paths:
                if not valid:
                    if outcome[0] != 'raise':
                        badv.append('neworder=%s is accepted' % order)
                    continue
                if outcome[0] != 'return':
                    badv.append('neworder=%s is refused' % order)
                    continue
                tr = [e for e in events if e[0] == 'call' and e[1] == 'self.transpose']
                axes = None
                if len(tr) == 1:
                    a0 = tr[0][2]
                    axes = list(a0[0]) if len(a0) == 1 and isinstance(a0[0], (list, tuple)) else list(a0)
                if axes != [p_ - 1 for p_ in order]:
                    badd.append('neworder=%s transposes by %s' % (order, axes))
    okv, okd = not badv, not badd
    lab = [n for n in own_nodes(ro) if isinstance(n, ast.Assign) and ast.unparse(n.targets[0]) == 'fs.pop_ids']
    okl = len(lab) == 1 and isinstance(lab[0].value, ast.ListComp) and ast.unparse(lab[0].value.generators[0].iter) == 'newaxes' and \
        ast.unparse(lab[0].value.elt) == 'self.pop_ids[%s]' % ast.unparse(lab[0].value.generators[0].target)
    rep.ob('R-DOM', 'reorder_pops validation', okv, '; '.join(badv[:2]) or 'neworder must be a permutation of 1..P', rel, ro.lineno, what='permutation validated')
    rep.ob('R-IDX', 'reorder_pops data', okd, '; '.join(badd[:2]) or 'axes transposed by neworder-1', rel, ro.lineno, what='new axis k is old axis neworder[k]-1')
    rep.ob('R-IDX', 'reorder_pops labels', okl, ast.unparse(lab[0]) if lab else 'labels not set', rel, lab[0].lineno if lab else ro.lineno,
           what='labels gathered with the same newaxes as the data (new label k = old label newaxes[k])')
    # ---- Misc.combine_pops -------------------------------------------------------------------------------------------------------
    if check_misc_combine(rep, prog):
        sc = prog.func(SM, 'Spectrum.scramble_pop_ids')
        check_scramble_range(rep, sc, rel)
        scramble_by_value(rep, prog, m, sc, rel)
        rep.floor('R-IDX', 15)
        return
    mm = prog.mod('dadi.Misc')
    mc = prog.func('dadi.Misc', 'combine_pops')
    rep.saw_function(mm.rel + ':combine_pops')
    generic.rule_name(rep, prog, mm, mc)
    nb = 0
    for n in own_nodes(mc):
        if isinstance(n, ast.AugAssign) and isinstance(n.target, ast.Subscript) and ast.unparse(n.target.value) == 'fs2':
            # enclosing loops
            bounds = {}
            p = n
            while p is not None:
                p = getattr(p, '_parent', None)
                if isinstance(p, ast.For) and isinstance(p.target, ast.Name):
                    mb = re.fullmatch(r'range\(ns\[(\d)\] \+ 1\)', ast.unparse(p.iter))
                    bounds[p.target.id] = int(mb.group(1)) if mb else None
            src = n.value
            ok = isinstance(src, ast.Subscript) and ast.unparse(src.value) == 'fs_tmp'
            comps = src.slice.elts if ok and isinstance(src.slice, ast.Tuple) else []
            ok = ok and all(isinstance(c, ast.Name) and bounds.get(c.id) == i for i, c in enumerate(comps)) and len(comps) == len(bounds)
            tcomps = n.target.slice.elts if isinstance(n.target.slice, ast.Tuple) else [n.target.slice]
            merged = tcomps[0]
            okt = isinstance(merged, ast.BinOp) and isinstance(merged.op, ast.Add)
            if not (okt and all(isinstance(x, ast.Name) and x.id in bounds for x in (merged.left, merged.right))):
                # the accumulation is not of the form fs2[i+j, k] += fs_tmp[...] over three named loops (e.g. one routine for every pair
                # after a transposition): this rule does not apply
                rep.ob('R-IDX', 'Misc.combine_pops accumulation', False, 'accumulation %s not recognised' % ast.unparse(n)[:80], mm.rel, n.lineno,
                       what='each loop variable ranges over the extent of the axis it indexes; merged index is the sum of the pair')
                nb += 1
                continue
            nb += 1
            # merged axes and the result shape
            pair = sorted(bounds[x.id] for x in (merged.left, merged.right)) if okt else None
            shp = None
            blk = getattr(n, '_parent', None)
            q = n
            while q is not None and not isinstance(q, ast.If):
                q = getattr(q, '_parent', None)
            zs = [s for s in (q.body if q is not None else []) if isinstance(s, ast.Assign) and ast.unparse(s.targets[0]) == 'fs2']
            if zs and pair:
                rest = [a for a in range(len(bounds)) if a not in pair]
                want = 'numpy.zeros((ns[%d] + ns[%d] + 1,%s))' % (pair[0], pair[1], (' ns[%d] + 1' % rest[0]) if rest else '')
                shp = ast.unparse(zs[0].value).replace(', )', ',)') == want.replace(', )', ',)')
            cond = ast.unparse(q.test) if q is not None else '?'
            okcnd = True
            mcn = re.search(r'idx == \[(\d), (\d)\]', cond)
            if mcn and pair:
                okcnd = [int(mcn.group(1)), int(mcn.group(2))] == pair
            rep.ob('R-IDX', 'Misc.combine_pops branch %s' % cond, ok and okt and bool(shp) and okcnd,
                   '%s with loop bounds %s; merged axes %s; shape ok: %s' % (ast.unparse(n), bounds, pair, shp), mm.rel, n.lineno,
                   what='each loop variable ranges over the extent of the axis it indexes; merged index is the sum of the pair')
    if nb == 0:
        # the function may have been rewritten to delegate to Spectrum.combine_two_pops: compose that method's (verified)
        # summary - the merged population takes the slot of the first of the pair, the second is deleted - with the documented
        # contract of this function: the merged population is ALWAYS on the first axis
        dele = [c for c in own_nodes(mc) if isinstance(c, ast.Call) and isinstance(c.func, ast.Attribute) and c.func.attr == 'combine_two_pops']
        moves = [c for c in own_nodes(mc) if isinstance(c, ast.Call) and (dotted(c.func) or '').split('.')[-1] in ('transpose', 'swapaxes', 'moveaxis', 'rollaxis')] + \
            [a for a in own_nodes(mc) if isinstance(a, ast.Attribute) and a.attr == 'T']
        if len(dele) == 1 and not moves and len(dele[0].args) == 1 and ast.unparse(dele[0].args[0]).replace(' ', '') in ('[idx[0]+1,idx[1]+1]',):
            bad = []
            for pair in ([0, 1], [0, 2], [1, 2]):
                order = [('m' if a == pair[0] else a) for a in range(3) if a != pair[1]]
                if order[0] != 'm':
                    bad.append('idx=%s gives axes %s (merged population on axis %d)' % (pair, order, order.index('m')))
            rep.ob('R-IDX', 'Misc.combine_pops delegation', not bad, '; '.join(bad) if bad else 'merged population first for every pair', mm.rel, dele[0].lineno,
                   what='the combined population is always along the first axis (documented contract), also when the work is delegated')
            nb = 4
        else:
            raise AnalysisError('expected 4 accumulation sites in Misc.combine_pops, found 0 (and no recognisable delegation)')
    if nb != 4:
        raise AnalysisError('expected 4 accumulation sites in Misc.combine_pops, found %d' % nb)
    # ---- scramble_pop_ids -------------------------------------------------------------------------------------------------------------
    sc = prog.func(SM, 'Spectrum.scramble_pop_ids')
    scramble_by_value(rep, prog, m, sc, rel)
    rep.floor('R-IDX', 15)
