"""C09 - Folding and ancestral misidentification conserve counts; symmetric, idempotent (DESIGN.md C09)."""
import ast, re
from fractions import Fraction
from sa import generic
from sa.algebra import Rat, Translator, AlgebraError, parse_expr
from sa.extract import single_assignments, inline, names_in, straightline
from sa.srcmodel import own_nodes, dotted, positional_params, bind_call
from sa.report import AnalysisError

EXPLANATION = (
    "Decides the coefficient and mask algebra of fold/unfold for every shape, parity and mask by abstract interpretation over "
    "the three cell classes {kept: total < T/2, ambiguous: total == T/2, folded-out: total > T/2} (mirror maps kept<->out, "
    "ambiguous<->ambiguous): every array value is, per class, a linear form a*x[p] + b*x[mirror p] and every boolean array a "
    "truth table over (mask[p], mask[mirror p]); reverse_array swaps the pair and the class. Obligations: fold gives (1,1), "
    "(1/2,1/2), (0,0) on kept / ambiguous / folded-out cells and mask = m OR mirror(m) (folded-out masked); unfold gives the "
    "symmetric split and, on valid folded input, the mask m on kept, mirror(m) on out and m OR mirror(m) on ambiguous cells; "
    "reverse_array reverses every axis; apply_anc_state_misid is (1-p)*x + p*mirror(x) with coefficients summing to one; the "
    "exec-generated operator family contains every binary, reflected and in-place operator of {add, sub, mul, truediv, "
    "floordiv, pow}, and each generated method first checks folding equality, ORs the masks and carries folding status, "
    "labels and extrap_x; the likelihood entry points share one auto-fold guard. Numerical conservation on particular arrays "
    "is not decided."
    ' R-DTYPE: the per-entry allele totals, counts and folded data are held in wide fixed types (no numpy.min_scalar_type / uint8 / float32 / dtype borrowed from an argument); reverse_array indexes its argument itself (numpy.asarray / array / getdata would drop the mask that has to be mirrored).')
TECHNIQUE = "abstract interpretation over cell classes (linear forms + mask truth tables) + operator-family exhaustiveness + sibling guards"
DECLINED = ["numerical conservation on particular arrays", "behaviour of numpy.ma arithmetic internals"]

SM = 'dadi.Spectrum_mod'
NUM = 'dadi.Numerics'
CLASSES = ('K', 'A', 'O')
MIRROR = {'K': 'O', 'A': 'A', 'O': 'K'}
F = Fraction

# truth tables over (ms, mm): index = ms*2 + mm
T_MS = (False, False, True, True)
T_MM = (False, True, False, True)


class Lin:
    def __init__(self, d):
        self.d = d      # class -> (a, b)

    def __repr__(self):
        return 'Lin(%s)' % {c: (str(a), str(b)) for c, (a, b) in self.d.items()}


class Boo:
    def __init__(self, d):
        self.d = d      # class -> 4-tuple of bools

    def const(self):
        return all(len(set(t)) == 1 for t in self.d.values())

    def __repr__(self):
        return 'Boo(%s)' % self.d


def lin_const(a, b):
    return Lin({c: (F(a), F(b)) for c in CLASSES})


def rev(v):
    if isinstance(v, Lin):
        return Lin({c: (v.d[MIRROR[c]][1], v.d[MIRROR[c]][0]) for c in CLASSES})
    if isinstance(v, Boo):
        out = {}
        for c in CLASSES:
            t = v.d[MIRROR[c]]
            out[c] = tuple(t[(i & 1) * 2 + (i >> 1)] for i in range(4))
        return Boo(out)
    raise AnalysisError('reverse_array of a non-array value')


BAD_TOTALS = {}


class FoldInterp:
    def __init__(self, fn, src):
        self.fn = fn
        self.env = {}
        self.src = src
        self.allowed = {c: set(range(4)) for c in CLASSES}    # rows (m, mirror m) possible on this path, per cell class
        self.ctor = None
        self.ret = None
        self.path = []

    def fork(self):
        o = FoldInterp(self.fn, self.src)
        o.env = dict(self.env)
        o.allowed = {c: set(v) for c, v in self.allowed.items()}
        o.ctor, o.ret, o.path = self.ctor, self.ret, list(self.path)
        return o

    def none_true(self, pred):
        """assume the boolean array `pred` (Boo, or (Boo, class selector)) is False at every cell"""
        b, sel = pred
        for c in CLASSES:
            if sel is not None and not sel.d[c][0]:
                continue
            bad = {i for i in range(4) if b.d[c][i]}
            self.allowed[c] -= bad
            # a cell of the mirror class sees this cell as its mirror: its row (ms, mm) is this cell's row (mm, ms)
            self.allowed[MIRROR[c]] -= {(i & 1) * 2 + (i >> 1) for i in bad}

    def any_pred(self, e):
        """numpy.any(B) / B.any() / numpy.any(B[sel]) -> (B, sel) ; `not` handled by the caller"""
        inner = None
        if isinstance(e, ast.Call):
            f = dotted(e.func) or ''
            if f.split('.')[-1] == 'any' and len(e.args) == 1 and f.startswith(('numpy.', 'np.')):
                inner = e.args[0]
            elif isinstance(e.func, ast.Attribute) and e.func.attr == 'any' and not e.args:
                inner = e.func.value
        if inner is None:
            return None
        sel = None
        if isinstance(inner, ast.Subscript):
            sv = self.ev(inner.slice)
            if not (isinstance(sv, Boo) and sv.const()):
                return None
            sel = sv
            inner = inner.value
        b = self.ev(inner)
        if not isinstance(b, Boo):
            return None
        return b, sel

    def ev(self, e):
        if isinstance(e, ast.Name):
            if e.id == 'self':
                return lin_const(1, 0)
            if e.id in self.env:
                return self.env[e.id]
            raise AnalysisError('%s: unknown name %s' % (self.fn.name, e.id))
        if isinstance(e, ast.Constant):
            return F(str(e.value)) if isinstance(e.value, (int, float)) and not isinstance(e.value, bool) else e.value
        if isinstance(e, ast.Attribute):
            t = ast.unparse(e)
            if t == 'self.data':
                return lin_const(1, 0)
            if t == 'self.mask':
                return Boo({c: T_MS for c in CLASSES})
            if t in ('self.pop_ids', 'self.extrap_x', 'self.sample_sizes', 'self.folded'):
                return ('attr', t)
            raise AnalysisError('%s: unsupported attribute %s' % (self.fn.name, t))
        if isinstance(e, ast.UnaryOp) and isinstance(e.op, ast.USub):
            v = self.ev(e.operand)
            return self.scale(v, F(-1))
        if isinstance(e, ast.BinOp) and isinstance(e.op, (ast.BitOr, ast.BitAnd, ast.BitXor)):
            # element-wise boolean operators on masks: the same as numpy.logical_or / _and / _xor
            a, b = self.ev(e.left), self.ev(e.right)
            if not (isinstance(a, Boo) and isinstance(b, Boo)):
                raise AnalysisError('%s: unsupported arithmetic %s' % (self.fn.name, ast.unparse(e)))
            f = {ast.BitOr: lambda x, y: x or y, ast.BitAnd: lambda x, y: x and y, ast.BitXor: lambda x, y: x != y}[type(e.op)]
            return Boo({cl: tuple(f(x, y) for x, y in zip(a.d[cl], b.d[cl])) for cl in CLASSES})
        if isinstance(e, ast.BinOp):
            l, r = self.ev(e.left), self.ev(e.right)
            if isinstance(e.op, ast.Add):
                return self.add(l, r)
            if isinstance(e.op, ast.Sub):
                return self.add(l, self.scale(r, F(-1)))
            if isinstance(e.op, ast.Mult):
                if isinstance(l, Fraction):
                    return self.scale(r, l)
                if isinstance(r, Fraction):
                    return self.scale(l, r)
            if isinstance(e.op, ast.Div) and isinstance(r, Fraction):
                return self.scale(l, 1 / r)
            raise AnalysisError('%s: unsupported arithmetic %s' % (self.fn.name, ast.unparse(e)))
        if isinstance(e, ast.Compare) and len(e.ops) == 1:
            # cell-class predicates: the allele total of an entry against half the total sample size
            def canon_names(node):
                # names are resolved through the environment: what matters is that the left side is the allele total of each
                # entry and the right side half the total sample size, whatever the local variables are called
                from sa.srcmodel import clone
                node = clone(node)
                for x in ast.walk(node):
                    if isinstance(x, ast.Name) and isinstance(self.env.get(x.id), tuple) and self.env[x.id][0] == 'scalar':
                        txt = self.env[x.id][1].replace(' ', '')
                        if txt == 'self._total_per_entry()':
                            x.id = 'total_per_entry'
                        elif txt in ('numpy.sum(self.sample_sizes)', 'self.sample_sizes.sum()'):
                            x.id = 'total_samples'
                        else:
                            BAD_TOTALS.setdefault(self.fn.name, '%s = %s' % (x.id, txt))
                    elif isinstance(x, ast.Name) and x.id in ('total_samples', 'total_per_entry'):
                        BAD_TOTALS.setdefault(self.fn.name, '%s is not defined from the spectrum' % x.id)
                return ast.unparse(node).replace(' ', '').replace('self._total_per_entry()', 'total_per_entry').replace('numpy.sum(self.sample_sizes)', 'total_samples')
            l, r = canon_names(e.left), canon_names(e.comparators[0])
            op = type(e.ops[0]).__name__
            flip = {'Lt': 'Gt', 'Gt': 'Lt', 'LtE': 'GtE', 'GtE': 'LtE', 'Eq': 'Eq', 'NotEq': 'NotEq'}
            general = self.class_table(canon_names(e.left), op, canon_names(e.comparators[0]))
            if general is not None:
                return Boo({c: (c in general,) * 4 for c in CLASSES})
            if r == 'total_per_entry':
                l, r, op = r, l, flip[op]
            if l == 'total_per_entry' and r in ('total_samples/2', 'total_samples/2.0', '0.5*total_samples', 'total_samples*0.5'):
                table = {'Lt': 'K', 'LtE': 'KA', 'Eq': 'A', 'GtE': 'AO', 'Gt': 'O', 'NotEq': 'KO'}[op]
            elif l == 'total_per_entry' and r in ('int(total_samples/2)', 'total_samples//2', 'int(total_samples/2.0)'):
                # floor(T/2): `>` selects the folded-out cells and `<=` their complement for either parity of T; the other
                # comparisons select different cells for odd and even T
                table = {'Gt': 'O', 'LtE': 'KA'}.get(op)
                if table is None:
                    raise AnalysisError('%s: comparison %s selects parity-dependent cells' % (self.fn.name, ast.unparse(e)))
            else:
                raise AnalysisError('%s: unsupported comparison %s' % (self.fn.name, ast.unparse(e)))
            return Boo({c: (c in table,) * 4 for c in CLASSES})
        if isinstance(e, ast.Call):
            f = dotted(e.func) or ''
            last = f.split('.')[-1]
            if last == 'reverse_array':
                return rev(self.ev(e.args[0]))
            if last == 'where' and len(e.args) == 3:
                c, a, b = self.ev(e.args[0]), self.ev(e.args[1]), self.ev(e.args[2])
                if not (isinstance(c, Boo) and c.const()):
                    raise AnalysisError('%s: where() condition is not a cell-class predicate' % self.fn.name)
                a = lin_const(0, 0) if a == 0 else a
                b = lin_const(0, 0) if b == 0 else b
                return Lin({cl: (a.d[cl] if c.d[cl][0] else b.d[cl]) for cl in CLASSES})
            if last == 'masked_array' and e.args:
                return self.ev(e.args[0])
            if last in ('logical_or', 'logical_and', 'logical_xor', 'mask_or'):
                a, b = self.ev(e.args[0]), self.ev(e.args[1])
                op = {'logical_or': lambda x, y: x or y, 'mask_or': lambda x, y: x or y, 'logical_and': lambda x, y: x and y, 'logical_xor': lambda x, y: x != y}[last]
                return Boo({cl: tuple(op(x, y) for x, y in zip(a.d[cl], b.d[cl])) for cl in CLASSES})
            if last == 'logical_not':
                a = self.ev(e.args[0])
                return Boo({cl: tuple(not x for x in a.d[cl]) for cl in CLASSES})
            if last in ('sum', '_total_per_entry', 'int'):
                return ('scalar', ast.unparse(e))
            if last == 'Spectrum':
                return ('ctor', e)
            raise AnalysisError('%s: unsupported call %s' % (self.fn.name, ast.unparse(e)[:60]))
        raise AnalysisError('%s: unsupported expression %s' % (self.fn.name, ast.unparse(e)[:60]))

    def class_table(self, ltxt, op, rtxt):
        """which cell classes (K: total below half, A: exactly half, O: above half) a comparison of integer arithmetic in
        total_per_entry and total_samples selects: evaluated for every total 0..T and T = 2..13; None when the expressions are
        not such arithmetic; an error when the answer is not uniform on a class (parity-dependent predicate)"""
        import operator as _op
        ops = {'Lt': _op.lt, 'LtE': _op.le, 'Eq': _op.eq, 'NotEq': _op.ne, 'GtE': _op.ge, 'Gt': _op.gt}
        if op not in ops:
            return None

        def compile_(txt):
            try:
                tree = ast.parse(txt, mode='eval').body
            except SyntaxError:
                return None
            for n in ast.walk(tree):
                if isinstance(n, ast.Name) and n.id not in ('total_per_entry', 'total_samples', 'int'):
                    return None
                if isinstance(n, ast.Call) and not (isinstance(n.func, ast.Name) and n.func.id == 'int' and len(n.args) == 1 and not n.keywords):
                    return None
                if not isinstance(n, (ast.Expression, ast.BinOp, ast.UnaryOp, ast.Constant, ast.Name, ast.Call, ast.Load, ast.Add, ast.Sub, ast.Mult, ast.Div, ast.FloorDiv, ast.USub, ast.Mod)):
                    return None
                if isinstance(n, ast.Constant) and not isinstance(n.value, (int, float)):
                    return None
            code = compile(ast.Expression(body=tree), '<predicate>', 'eval')
            return lambda t, T: eval(code, {'__builtins__': {}}, {'total_per_entry': t, 'total_samples': T, 'int': int})
        fl, fr = compile_(ltxt), compile_(rtxt)
        if fl is None or fr is None:
            return None
        sel = {'K': set(), 'A': set(), 'O': set()}
        for T in range(2, 14):
            for t in range(0, T + 1):
                cls = 'K' if 2 * t < T else 'A' if 2 * t == T else 'O'
                try:
                    sel[cls].add(bool(ops[op](fl(t, T), fr(t, T))))
                except ZeroDivisionError:
                    return None
        if any(len(v) > 1 for v in sel.values()):
            raise AnalysisError('%s: comparison %s %s %s selects different cells for even and odd totals' % (self.fn.name, ltxt, op, rtxt))
        return ''.join(c for c in 'KAO' if sel[c] == {True})

    def scale(self, v, k):
        if isinstance(v, Lin):
            return Lin({c: (a * k, b * k) for c, (a, b) in v.d.items()})
        if isinstance(v, Fraction):
            return v * k
        raise AnalysisError('scale of non-linear value')

    def add(self, l, r):
        if isinstance(l, Lin) and isinstance(r, Lin):
            return Lin({c: (l.d[c][0] + r.d[c][0], l.d[c][1] + r.d[c][1]) for c in CLASSES})
        if isinstance(l, Fraction) and isinstance(r, Fraction):
            return l + r
        raise AnalysisError('unsupported addition')

    def run(self):
        """all paths through the function body: list of interpreters in their final state"""
        return self.block(list(self.fn.body))

    def block(self, stmts):
        for i, st in enumerate(stmts):
            if isinstance(st, ast.Expr) and isinstance(st.value, ast.Constant):
                continue
            if isinstance(st, ast.If) and any(isinstance(x, ast.Raise) for x in st.body):
                continue
            if isinstance(st, ast.If) and isinstance(st.test, ast.Compare) and len(st.test.ops) == 1 and isinstance(st.test.ops[0], (ast.Is, ast.IsNot)) \
                    and isinstance(st.test.left, ast.Name) and isinstance(st.test.comparators[0], ast.Constant) and st.test.comparators[0].value is None \
                    and st.test.left.id in self.env:
                # `if x is None:` on a value the interpreter knows
                is_none = self.env[st.test.left.id] is None
                truth = is_none if isinstance(st.test.ops[0], ast.Is) else not is_none
                return self.block((st.body if truth else st.orelse) + stmts[i + 1:])
            if isinstance(st, ast.If):
                # data-dependent branch on `any(mask-valued array)`: both outcomes are explored, the False outcome under the
                # constraint that the array is False everywhere (on the selected cell classes)
                test, neg = st.test, False
                if isinstance(test, ast.UnaryOp) and isinstance(test.op, ast.Not):
                    test, neg = test.operand, True
                pred = self.any_pred(test)
                if pred is None:
                    raise AnalysisError('%s: unsupported statement %s' % (self.fn.name, ast.unparse(st)[:70]))
                out = []
                for truth in (True, False):
                    o = self.fork()
                    o.path.append('%s is %s' % (ast.unparse(st.test)[:50], truth))
                    any_value = truth != neg
                    if not any_value:
                        o.none_true(pred)
                    out.extend(o.block((st.body if truth else st.orelse) + stmts[i + 1:]))
                return out
            if isinstance(st, ast.Assign) and len(st.targets) == 1:
                t = st.targets[0]
                if isinstance(t, ast.Name):
                    vt = ast.unparse(st.value)
                    if isinstance(st.value, ast.Constant) and st.value.value is None:
                        self.env[t.id] = None
                        continue
                    if (t.id in ('total_samples', 'total_per_entry') and not isinstance(st.value, ast.Compare)) or vt.replace(' ', '') in ('self._total_per_entry()', 'numpy.sum(self.sample_sizes)', 'self.sample_sizes.sum()'):
                        self.env[t.id] = ('scalar', vt)
                        continue
                    if isinstance(st.value, ast.Name) and isinstance(self.env.get(st.value.id), tuple) and self.env[st.value.id][0] == 'scalar':
                        self.env[t.id] = self.env[st.value.id]
                        continue
                    v = self.ev(st.value)
                    if isinstance(v, tuple) and v[0] == 'ctor':
                        self.ctor = (t.id, v[1])
                    self.env[t.id] = v
                    continue
                if isinstance(t, ast.Subscript) and isinstance(t.value, ast.Attribute) and t.value.attr == 'data' and isinstance(t.value.value, ast.Name):
                    # X.data[cond] = 0
                    name = t.value.value.id
                    cond = self.ev(t.slice)
                    val = self.ev(st.value)
                    if not (isinstance(cond, Boo) and cond.const() and val == 0):
                        raise AnalysisError('%s: unsupported masked store %s' % (self.fn.name, ast.unparse(st)))
                    cur = self.env[name]
                    self.env[name] = Lin({c: ((F(0), F(0)) if cond.d[c][0] else cur.d[c]) for c in CLASSES})
                    continue
                if isinstance(t, ast.Attribute) and isinstance(t.value, ast.Name) and self.ctor and t.value.id == self.ctor[0]:
                    self.env['%s.%s' % (t.value.id, t.attr)] = ast.unparse(st.value)
                    continue
            if isinstance(st, ast.AugAssign) and isinstance(st.target, ast.Name) and isinstance(st.op, ast.Add):
                self.env[st.target.id] = self.add(self.env[st.target.id], self.ev(st.value))
                continue
            if isinstance(st, ast.Return):
                self.ret = ast.unparse(st.value)
                return [self]
            raise AnalysisError('%s: unsupported statement %s' % (self.fn.name, ast.unparse(st)[:70]))
        return [self]


def tt(fn):
    return tuple(bool(fn(ms, mm)) for ms, mm in zip(T_MS, T_MM))


def check_fold_unfold(rep, prog, m):
    rel = m.rel
    for q in ('Spectrum.fold', 'Spectrum.unfold'):
        fn = prog.func(SM, q)
        rep.saw_function(rel + ':' + q)
        generic.rule_name(rep, prog, m, fn)
        generic.rule_def(rep, m, fn)
        paths = FoldInterp(fn, m).run()
        short = q.split('.')[1]
        results = {}      # obligation name -> [ok, detail, what, rule]

        def note(rule, name, ok, detail, what, it):
            cur = results.setdefault((rule, name), [True, detail, what])
            if not ok and cur[0]:
                cur[0] = False
                cur[1] = detail + ((' [path: %s]' % '; '.join(it.path)) if it.path else '')
        for it in paths:
            ctor, ret = it.ctor, it.ret
            if ctor is None:
                raise AnalysisError('%s does not build a Spectrum' % q)
            call = ctor[1]
            b, problems = bind_call(prog.func(SM, 'Spectrum.__new__'), call, skip_self=True)
            data = it.ev(b['data'])
            mask = it.ev(b['mask'])
            rows = it.allowed

            def same(c, table, want):
                return all(table[i] == want[i] for i in rows[c])
            if short == 'fold':
                want = {'K': (F(1), F(1)), 'A': (F(1, 2), F(1, 2)), 'O': (F(0), F(0))}
                for c, nm in (('K', 'kept'), ('A', 'ambiguous'), ('O', 'folded-out')):
                    note('R-ALG', 'fold data %s cells' % nm, data.d[c] == want[c], 'coefficients of (x, mirror x) = (%s, %s); expected (%s, %s)' % (data.d[c] + want[c]), 'fold data on %s cells' % nm, it)
                wm = {'K': tt(lambda a, b_: a or b_), 'A': tt(lambda a, b_: a or b_), 'O': (True,) * 4}
                for c, nm in (('K', 'kept'), ('A', 'ambiguous'), ('O', 'folded-out')):
                    note('R-ALG', 'fold mask %s cells' % nm, same(c, mask.d[c], wm[c]), 'mask truth table over (m, mirror m) = %s; expected %s' % (mask.d[c], wm[c]),
                         'fold mask on %s cells: union of the entry and its mirror (folded-out cells masked)' % nm, it)
                okf = isinstance(b.get('data_folded'), ast.Constant) and b['data_folded'].value is True
                guard = any(isinstance(s_, ast.If) and ast.unparse(s_.test) == 'self.folded' and any(isinstance(x, ast.Raise) for x in s_.body) for s_ in fn.body)
            else:
                for c, nm in (('K', 'kept'), ('A', 'ambiguous'), ('O', 'folded-out')):
                    note('R-ALG', 'unfold data %s cells' % nm, data.d[c] == (F(1, 2), F(1, 2)), 'coefficients of (x, mirror x) = (%s, %s); expected (1/2, 1/2)' % data.d[c],
                         'unfold splits each folded count equally between the entry and its mirror', it)
                # valid folded input: folded-out cells are masked.  kept: mm == True ; out: ms == True
                kept_rows = [i for i in range(4) if T_MM[i] and i in rows['K']]
                out_rows = [i for i in range(4) if T_MS[i] and i in rows['O']]
                okk = all(mask.d['K'][i] == T_MS[i] for i in kept_rows)
                oko = all(mask.d['O'][i] == T_MM[i] for i in out_rows)
                oka = same('A', mask.d['A'], tt(lambda a, b_: a or b_))
                note('R-ALG', 'unfold mask kept cells', okk, 'truth table %s (rows with the mirror masked must equal m)' % (mask.d['K'],), 'kept entries keep their own mask', it)
                note('R-ALG', 'unfold mask folded-out cells', oko, 'truth table %s (rows with the entry masked must equal mirror m)' % (mask.d['O'],), 'folded-out entries take the mask of their mirror', it)
                note('R-ALG', 'unfold mask ambiguous cells', oka, 'truth table %s; expected m OR mirror(m)' % (mask.d['A'],), 'ambiguous entries are masked iff either of the pair is masked', it)
                okf = isinstance(b.get('data_folded'), ast.Constant) and b['data_folded'].value is False
                guard = any(isinstance(s_, ast.If) and ast.unparse(s_.test) == 'not self.folded' and any(isinstance(x, ast.Raise) for x in s_.body) for s_ in fn.body)
            okl = b.get('pop_ids') is not None and ast.unparse(b['pop_ids']) == 'self.pop_ids' and it.env.get('%s.extrap_x' % ctor[0]) == 'self.extrap_x' and ret == ctor[0]
            note('R-FLOW', '%s result' % short, okf and okl and not problems, 'Spectrum(%s) ; extrap_x=%s ; returns %s' % (', '.join('%s=%s' % (k, ast.unparse(v)) for k, v in b.items()), it.env.get('%s.extrap_x' % ctor[0]), ret),
                 'result carries the right folding flag, labels and extrap_x', it)
            note('R-DOM', '%s guard' % short, guard, 'refuses input that is already %s' % ('folded' if short == 'fold' else 'unfolded'), 'folding status checked first', it)
        for (rule, name), (ok, detail, what) in results.items():
            rep.ob(rule, name, ok, detail + ('' if len(paths) == 1 else ' (%d paths explored)' % len(paths)), rel, fn.lineno, what=what)
    # the class predicates depend on these definitions
    for q in ('Spectrum.fold', 'Spectrum.unfold'):
        fn = prog.func(SM, q)
        if not any(isinstance(n, ast.Compare) and not isinstance(n.ops[0], (ast.Is, ast.IsNot)) for n in ast.walk(fn)):
            continue     # the function does not use the class predicates (the algebra obligations above decide it)
        bad = BAD_TOTALS.get(fn.name)
        rep.ob('R-IDX', '%s totals' % q, bad is None, 'the class predicates compare self._total_per_entry() with half of sum(sample_sizes)' + ('' if bad is None else ': ' + bad),
               rel, fn.lineno, what='cell classes defined by the derived-allele total of each entry')
    tp = prog.func(SM, 'Spectrum._total_per_entry')
    cp = prog.func(SM, 'Spectrum._counts_per_entry')
    # the two index primitives by the value of an element (abstract execution for 1-4 populations + index semantics): element
    # (i_1..i_P, p) of _counts_per_entry() is i_p, element (i_1..i_P) of _total_per_entry() is i_1 + ... + i_P
    from sa import tis
    from sa import miniexec as mx
    from sa import alpha as _alpha
    known_ = _alpha.load_table().get('__params__', {}).get(rel)
    known_ = set(known_) if known_ is not None else None
    badt = []

    def is_indices(v):
        c_ = mx.call_of(v, 'indices')
        return c_ is not None and len(c_[0]) == 1 and mx.show(c_[0][0]) == 'self.shape'

    def value_at(v, idx, P):
        """the element of v at idx as a list of index symbols that are summed"""
        rec = mx.method_call(v, 'sum')
        c_ = mx.call_of(v, 'sum') if rec is None or mx.show(rec) in ('numpy', 'np') else None
        if (rec is not None and mx.show(rec) not in ('numpy', 'np')) or c_ is not None:
            X = rec if c_ is None else c_[0][0]
            kw_ = v.struct[3]
            ax = kw_.get('axis', (v.struct[2][0] if c_ is None and v.struct[2] else (c_[0][1] if c_ is not None and len(c_[0]) > 1 else None)))
            if not isinstance(ax, int):
                raise tis.Unfollowed('sum over axis %s' % mx.show(ax))
            ax %= len(idx) + 1
            out = []
            for p_ in range(P):
                out += value_at(X, idx[:ax] + [p_] + idx[ax:], P)
            return out
        root, ridx = tis.at(v, idx, is_indices)
        if not isinstance(ridx[0], int) or len(ridx) != P + 1:
            raise tis.Unfollowed('element of the index grid at %s' % [mx.show(x) for x in ridx])
        return [mx.show(ridx[1 + ridx[0]])]
    try:
        for P in (1, 2, 3, 4):
            selfv = mx.Sym('self', truth=True, attrs={'Npop': P, 'ndim': P, 'shape': mx.Sym('self.shape', length=P)})
            it_ = mx.Interp(prog, m, known_functions=known_, enter=('Spectrum._counts_per_entry',))
            idx = [mx.Sym('i%d' % k) for k in range(P)]
            rc = [p_ for p_ in it_.run(cp, {'self': selfv}) if p_[0][0] == 'return']
            if len(rc) != 1:
                raise tis.Unfollowed('%d returning paths of _counts_per_entry' % len(rc))
            counts = rc[0][0][1]
            for p_ in range(P):
                if value_at(counts, idx + [p_], P) != ['i%d' % p_]:
                    badt.append('%d populations: entry (.., %d) of _counts_per_entry() is %s' % (P, p_, value_at(counts, idx + [p_], P)))

            def hook(nm, args, kwargs, counts=counts):
                if nm == 'self._counts_per_entry' and not args:
                    return counts
                return NotImplemented
            it_ = mx.Interp(prog, m, known_functions=known_, call_hook=hook)
            rt = [p_ for p_ in it_.run(tp, {'self': selfv}) if p_[0][0] == 'return']
            if len(rt) != 1:
                raise tis.Unfollowed('%d returning paths of _total_per_entry' % len(rt))
            got = sorted(value_at(rt[0][0][1], idx, P))
            if got != ['i%d' % k for k in range(P)]:
                badt.append('%d populations: an entry of _total_per_entry() is the sum of %s' % (P, got))
    except (tis.Unfollowed, mx.Undecidable, IndexError) as e:
        badt.append('index primitives are not recognised: %s' % e)
    rep.ob('R-IDX', '_total_per_entry', not badt, '; '.join(badt[:2]) if badt else 'sum over populations of the index of each entry (1-4 populations)', rel, tp.lineno, what='total = i_1 + ... + i_P')
    ra = prog.func(NUM, 'reverse_array')
    # for 1..4-dimensional arrays the result is arr[::-1, ::-1, ...] (abstract execution: the index tuple is compared as a value)
    from sa import miniexec as _mx
    okr, det_r = True, []
    for D in (1, 2, 3, 4):
        def _conv(nm_, args_, kw_, D=D):
            # conversions that keep a masked array / Spectrum as it is return their argument; numpy.asarray / numpy.array / .data
            # give the bare data (the mask is dropped): the result is then no longer the mirror image of the masked input
            last_ = nm_.split('.')[-1]
            if last_ in ('asanyarray',) and len(args_) == 1 and not kw_:
                return args_[0]
            if last_ in ('asarray', 'array', 'ascontiguousarray', 'getdata') and nm_.split('.')[0] in ('numpy', 'np') and args_:
                return _mx.Sym('%s(%s)' % (nm_, _mx.show(args_[0])), attrs={'shape': _mx.Sym('arr.shape', length=D), 'ndim': D})
            return NotImplemented
        it_ = _mx.Interp(prog, prog.mod(NUM), call_hook=_conv)
        try:
            paths_ = it_.run(ra, {'arr': _mx.Sym('arr', attrs={'shape': _mx.Sym('arr.shape', length=D), 'ndim': D})})
        except _mx.Undecidable as e:
            raise AnalysisError('reverse_array is not recognised: %s' % e)
        for outcome, events, dec in paths_:
            v = outcome[1] if outcome[0] == 'return' else None
            st_ = v.struct if isinstance(v, _mx.Sym) else None
            key = st_[2] if st_ and st_[0] == 'index' and _mx.show(st_[1]) == 'arr' else None
            key = key if isinstance(key, tuple) else (key,)
            if not (len(key) == D and all(isinstance(k_, slice) and k_.start is None and k_.stop is None and k_.step == -1 for k_ in key)):
                okr = False
                det_r.append('%d-D: returns %s' % (D, _mx.show(v)[:60] if v is not None else outcome) +
                             (' (the argument is converted to a bare ndarray first: the mask of a masked spectrum is not mirrored)' if st_ and st_[0] == 'index' and '(arr)' in _mx.show(st_[1]) else ''))
    rep.ob('R-TPL', 'Numerics.reverse_array', okr, '; '.join(det_r[:2]) if det_r else 'returns arr indexed by slice(None, None, -1) on every axis (1..4 dimensions executed abstractly)', prog.mod(NUM).rel, ra.lineno,
           what='every axis is reversed')


def check_misid(rep, prog):
    nm = prog.mod(NUM)
    fn = prog.func(NUM, 'apply_anc_state_misid')
    try:
        env, r = straightline(fn)
        x, mx, p = Rat.atom('fs'), Rat.atom('reverse_array(fs)'), Rat.atom('p_misid')
        ok = r.equals((Rat.const(1) - p) * x + p * mx)
    except AlgebraError:
        ok = False
    rep.ob('R-ALG', 'apply_anc_state_misid', ok, '(1 - p)*fs + p*reverse_array(fs)', nm.rel, fn.lineno, what='convex mix with coefficients summing to one')
    mk = prog.func(NUM, 'make_anc_state_misid_func.misid_func')
    outer_mk = prog.func(NUM, 'make_anc_state_misid_func')
    # the wrapper called with (params, ns, pts): the model receives params[:-1] and the other arguments unchanged, and the result is
    # apply_anc_state_misid(model result, params[-1])
    from sa import miniexec as _mx2
    okm, det_m = True, ''
    try:
        it_ = _mx2.Interp(prog, nm)

        def thunk():
            w = it_.call_function(outer_mk, it_.bind(outer_mk, [_mx2.Sym('func', truth=True)], {}))
            return it_.apply(w, [_mx2.Sym('all_params'), _mx2.Sym('ns'), _mx2.Sym('pts')], {'k': _mx2.Sym('k')})
        paths_ = it_.run_thunk(thunk, 'make_anc_state_misid_func(func)(params, ns, pts, k=k)')
        if len(paths_) != 1 or paths_[0][0][0] != 'return':
            okm, det_m = False, '%d paths' % len(paths_)
        else:
            outcome, events, dec = paths_[0]
            fcalls = [e for e in events if e[0] == 'call' and e[1] == 'func']
            acalls = [e for e in events if e[0] == 'call' and e[1] == 'apply_anc_state_misid']
            okm = len(fcalls) == 1 and [_mx2.show(a) for a in fcalls[0][2]] == ['all_params[:-1]', 'ns', 'pts'] and {k_: _mx2.show(v_) for k_, v_ in fcalls[0][3].items()} == {'k': 'k'} and \
                len(acalls) == 1 and [_mx2.show(a) for a in acalls[0][2]] == ['func(all_params[:-1], ns, pts, k=k)', 'all_params[-1]'] and _mx2.show(outcome[1]).startswith('apply_anc_state_misid(')
            det_m = 'model called with (%s); mixed by apply_anc_state_misid(%s)' % (', '.join(_mx2.show(a) for a in fcalls[0][2]) if fcalls else '?', ', '.join(_mx2.show(a)[:40] for a in acalls[0][2]) if acalls else '?')
    except _mx2.Undecidable as e:
        raise AnalysisError('make_anc_state_misid_func is not recognised: %s' % e)
    rep.ob('R-IDX', 'make_anc_state_misid_func', okm, 'last parameter is the misidentification probability; the model receives the others' + ('' if okm else ': ' + det_m), nm.rel, mk.lineno, what='parameter plumbing of the misidentification wrapper')


def check_operators(rep, prog, m):
    rel = m.rel
    gen = getattr(m, 'generated', {})
    names = {q.split('.')[1] for q in gen}
    base = ['add', 'sub', 'mul', 'truediv', 'floordiv', 'pow']
    need = ['__%s__' % b for b in base] + ['__r%s__' % b for b in base] + ['__i%s__' % b for b in base]
    for n in need:
        rep.ob('R-EXH', 'Spectrum operator %s' % n, n in names, 'generated by the exec templates' if n in names else 'NOT generated: falls back to numpy.ma without the folding check / mask union', rel, 1,
               what='operator %s is overloaded' % n)
    # what each generated operator does, for a masked-array operand and for any other operand: abstract execution (the methods
    # may come from exec templates or from closure factories, and may use helpers)
    from sa import miniexec as mx
    from sa import alpha
    known = alpha.load_table().get('__params__', {}).get(rel)
    known = set(known) if known is not None else None
    for q, (fn, text) in sorted(gen.items()):
        name = q.split('.')[1]
        inplace = name.startswith('__i')
        problems = []
        n_paths = 0
        for kind in ('masked', 'plain'):
            def hook(nm, args, kwargs, kind=kind):
                if nm == 'isinstance' and len(args) == 2 and mx.show(args[1]) in ('numpy.ma.masked_array', 'numpy.ma.MaskedArray', 'np.ma.masked_array'):
                    return kind == 'masked'
                if nm == 'getattr' and len(args) >= 2 and isinstance(args[1], str) and isinstance(args[0], mx.Sym):
                    return mx.Sym('%s.%s' % (args[0].text, args[1]))
                if nm == 'hasattr':
                    return mx.Sym('hasattr(%s)' % ', '.join(mx.show(a) for a in args))
                return NotImplemented

            def attr_hook(base, attr):
                if isinstance(base, mx.Sym) and base.text in ('self', 'other') and attr in ('pop_ids', 'extrap_x') and attr not in base.attrs:
                    return mx.Sym('%s.%s' % (base.text, attr), attrs={'__notnone__': False})
                return NotImplemented
            it = mx.Interp(prog, m, call_hook=hook, attr_hook=attr_hook, known_functions=known)
            try:
                paths = it.run(fn, {'self': mx.Sym('self', truth=True), 'other': mx.Sym('other')})
            except mx.Undecidable as e:
                raise AnalysisError('operator %s is not recognised: %s' % (name, e))
            n_paths += len(paths)
            want_data = 'self.data.%s(%s)' % (name, 'other.data' if kind == 'masked' else 'other')
            want_mask = 'numpy.ma.mask_or(self.mask, other.mask)' if kind == 'masked' else 'self.mask'
            for outcome, events, dec in paths:
                calls = [e for e in events if e[0] == 'call']
                if not calls or calls[0][1] != 'self._check_other_folding' or [mx.show(a) for a in calls[0][2]] != ['other']:
                    problems.append('%s operand: the folding check is not the first action' % kind)
                    continue
                datacalls = [e for e in calls if e[1] == 'self.data.%s' % name]
                if len(datacalls) != 1 or [mx.show(a) for a in datacalls[0][2]] != ['other.data' if kind == 'masked' else 'other']:
                    problems.append('%s operand: numpy operator %s is not applied once to the data (%s)' % (kind, name, [(e[1], [mx.show(a) for a in e[2]]) for e in datacalls]))
                    continue
                if inplace:
                    msets = [mx.show(e[3]) for e in events if e[0] == 'setattr' and e[1] == 'self' and e[2] == 'mask']
                    if kind == 'masked' and msets != [want_mask]:
                        problems.append('masked operand: self.mask is set to %s' % msets)
                    if kind == 'plain' and msets:
                        problems.append('plain operand: self.mask is changed')
                    if outcome[0] != 'return' or mx.show(outcome[1]) != 'self':
                        problems.append('%s operand: does not return self' % kind)
                    if any(e[0] == 'setattr' and e[1] == 'self' and e[2] == 'folded' for e in events):
                        problems.append('%s operand: folding status changed' % kind)
                    continue
                ctor = [e for e in calls if e[1] in ('self.__class__.__new__', 'Spectrum.__new__', 'Spectrum')]
                if len(ctor) != 1 or outcome[0] != 'return' or not mx.show(outcome[1]).startswith(ctor[0][1] + '('):
                    problems.append('%s operand: the result is not a newly built Spectrum' % kind)
                    continue
                newfn = prog.func(SM, 'Spectrum.__new__')
                pos = list(ctor[0][2])
                if ctor[0][1].endswith('__new__'):
                    pos = pos[1:]
                try:
                    it2 = mx.Interp(prog, m)
                    it2.path = mx.Path([])
                    b = {k: mx.show(v) for k, v in it2.bind(newfn, pos, ctor[0][3], skip_first=True).items()}
                except mx.Undecidable as e:
                    problems.append('%s operand: constructor arguments do not bind (%s)' % (kind, e))
                    continue
                exp = {'data': want_data, 'mask': want_mask, 'mask_corners': 'False', 'data_folded': 'self.folded', 'check_folding': 'False'}
                diff = {k: (b.get(k), v) for k, v in exp.items() if b.get(k) != v}
                if diff:
                    problems.append('%s operand: result built with %s' % (kind, ', '.join('%s=%s (expected %s)' % (k, g, w) for k, (g, w) in sorted(diff.items()))))
                if b.get('pop_ids') not in ('self.pop_ids', 'other.pop_ids') or b.get('extrap_x') not in ('self.extrap_x', 'None'):
                    problems.append('%s operand: labels pop_ids=%s extrap_x=%s' % (kind, b.get('pop_ids'), b.get('extrap_x')))
        rep.ob('R-TPL', 'Spectrum.%s' % name, not problems,
               '%d paths executed abstractly for a masked-array and a plain operand%s' % (n_paths, '' if not problems else ': ' + '; '.join(sorted(set(problems))[:3])), rel, fn.lineno,
               what='generated operator checks folding, unions masks and keeps folding status, labels, extrap_x')
    cf = prog.func(SM, 'Spectrum._check_other_folding')
    # raises exactly when the operand is a Spectrum (isinstance of self.__class__) whose folding status differs: abstract execution
    # over (is an instance) x (self folded) x (other folded)
    okf = True
    for inst in (False, True):
        for fs_, fo_ in ((False, False), (False, True), (True, False), (True, True)):
            def hk(nm_, args_, kw_, inst=inst):
                if nm_ == 'isinstance' and len(args_) == 2 and mx.show(args_[1]) == 'self.__class__' and mx.show(args_[0]) == 'other':
                    return inst
                return NotImplemented
            it_ = mx.Interp(prog, m, call_hook=hk)
            try:
                paths_ = it_.run(cf, {'self': mx.Sym('self', truth=True, attrs={'folded': fs_}), 'other': mx.Sym('other', attrs={'folded': fo_})})
            except mx.Undecidable as e:
                raise AnalysisError('_check_other_folding is not recognised: %s' % e)
            raised = all(o[0][0] == 'raise' for o in paths_)
            if raised != (inst and fs_ != fo_) or len({o[0][0] for o in paths_}) != 1:
                okf = False
    rep.ob('R-DOM', 'Spectrum._check_other_folding', okf, 'raises when a folded and an unfolded Spectrum are combined', rel, cf.lineno, what='mixed folding status refused')
    rep.floor('R-EXH', 18)


def check_likelihood_guards(rep, prog):
    im = prog.mod('dadi.Inference')
    guard = None
    from rules.c11 import autofold_by_value
    for q in ('ll_per_bin', 'linear_Poisson_residual', 'Anscombe_Poisson_residual', 'optimal_sfs_scaling'):
        ok, det_, line_ = autofold_by_value(prog, q)
        rep.ob('R-TPL', 'Inference.%s auto-fold' % q, ok, det_, im.rel, line_, what='model folded against folded data before anything else')
    # after the auto-fold, mixing a folded with an unfolded spectrum is refused by the Spectrum operators - but only if both
    # arguments take part in the arithmetic as whole spectra at least once (`.data` bypasses the operators and the masks)
    from rules.c11 import mask_sources
    fn = prog.func('dadi.Inference', 'll_per_bin')
    res = [s for s in fn.body if isinstance(s, ast.Assign) and ast.unparse(s.targets[0]) == 'result']
    ms = mask_sources(res[0].value, {'model': {'model'}, 'data': {'data'}}) if len(res) == 1 else set()
    rep.ob('R-MASK', 'Inference.ll_per_bin whole-spectrum operands', ms >= {'model', 'data'}, 'whole-spectrum operands reaching the result: %s' % sorted(ms), im.rel,
           res[0].lineno if res else fn.lineno, what='both spectra enter the likelihood through the guarded Spectrum operators (folding equality checked, masks united)')


def run(rep, prog, tier):
    m = prog.mod(SM)
    rep.saw_file(m.rel)
    check_fold_unfold(rep, prog, m)
    for q in ('Spectrum._total_per_entry', 'Spectrum._counts_per_entry', 'Spectrum.fold', 'Spectrum.unfold', 'Spectrum._ensure_shape_and_dimension'):
        if q in m.funcs:
            generic.rule_dtype(rep, m, prog.func(SM, q), 'the per-entry allele totals that decide which entries are folded are held in a wide fixed type (no wrap-around when the total sample exceeds 255 / 65535)')
    rep.floor('R-DTYPE', 4)
    check_misid(rep, prog)
    check_operators(rep, prog, m)
    check_likelihood_guards(rep, prog)
    rep.floor('R-ALG', 13)
    rep.floor('R-TPL', 20)
