"""C15 - Library models are well-formed and reduce exactly to their nested special cases (DESIGN.md C15)."""
import ast, re
from fractions import Fraction
from sa import generic
from sa.algebra import Rat, Translator, AlgebraError, parse_expr
from sa.extract import single_assignments, inline, names_in
from sa.srcmodel import own_nodes, dotted, positional_params, func_params, bind_call
from sa.tags import TagAnalysis, run_tags, MIXED
from sa.report import AnalysisError

EXPLANATION = (
    "Decides, over every top-level function of the six model modules: (1) __param_names__ exists and equals, in order, the "
    "names unpacked from params, and every unpacked parameter is used; (2) R-ROLE/R-IDX over every Integration.*/PhiManip.* "
    "call - a variable of one role class (size nu*, time T*, migration m*, selection gamma*, dominance h*, fraction s/f*) only "
    "reaches a parameter of that role (the one coercion of the library, a fraction passed as a starting size, is part of the "
    "lattice), a variable named m<i><j>, nu<k>, gamma<k>, h<k> only reaches the like-indexed parameter, and a migration "
    "variable without a two-digit index bound to m<i><j> is bound to m<j><i> in the same call; (3) dimension typestate of phi - "
    "phi_1D gives 1, the constructors add one, remove_pop subtracts one, every integrator / pulse / from_phi is applied at "
    "its own dimension with a grid tuple of that length, on every path, and the spectrum returned is the one from_phi built; "
    "(4) nesting - wrappers that delegate to a richer model pass their variables position by position to the callee's "
    "__param_names__ (equal names, or the documented nesting literal / duplicated symmetric value); (5) sibling agreement - "
    "definitions that exist in a mirrored pair (x1 = f(s), x2 = f(1-s)) are images of each other, and a model and its "
    "*_sel / *_mscore twins define like-named intermediate sizes by the same expressions. Finiteness and numerical reduction "
    "at the nesting point are not decided."
    " Shared necessary conditions: R-CTYPE (no quotient of two integer-typed operands in any C coefficient function: C truncates 1/2 to 0, so the compiled time-dependent path and the constant-parameter Python path of nested models would disagree) and C06's deposition rule for PhiManip._admixture_intermediates (admixture models reduce to their split siblings only if the helper keeps the source density).")
TECHNIQUE = "name/role/index correspondence over all model call sites + phi-dimension typestate + sibling (mirror/twin) comparison by normal forms"
DECLINED = ["finiteness / non-negativity of model output", "numerical equality at the nesting point", "equivariance up to splitting error"]

TWIN_EXCEPTIONS = {
    ('sec_contact_asym_mig_three_epoch', 'sec_contact_sym_mig_three_epoch'):
        "documented difference: the asymmetric model has six parameters and its docstring lists 'T3 (not used)'; its final isolation epoch deliberately lasts T2",
}
MODS = ['dadi.Demographics1D', 'dadi.Demographics2D', 'dadi.Demographics3D', 'dadi.PortikModels.portik_models_2d', 'dadi.PortikModels.portik_models_3d', 'dadi.DFE.DemogSelModels']


def unpacked_names(fn):
    """names the first parameter of a model function is unpacked into (`a, b, c = params`), or None"""
    p0 = positional_params(fn)[0] if positional_params(fn) else None
    for n in fn.body:
        if isinstance(n, ast.Assign) and isinstance(n.targets[0], (ast.Tuple, ast.List)) and isinstance(n.value, ast.Name) and n.value.id == p0:
            return [ast.unparse(e) for e in n.targets[0].elts]
    return None


def role_of_name(n):
    """role class of a model variable by its name"""
    base = n
    if re.fullmatch(r'(nu|n|N)\w*', n) and not n.startswith('ns'):
        return 'size'
    if re.fullmatch(r'T\w*', n):
        return 'time'
    if re.fullmatch(r'm\w*', n):
        return 'mig'
    if re.fullmatch(r'gamma\w*', n):
        return 'sel'
    if re.fullmatch(r'h\d?', n):
        return 'dom'
    if re.fullmatch(r'(s|f\w*|F\w*|p_misid|p)', n):
        return 'frac'
    if re.fullmatch(r'theta\w*', n):
        return 'theta'
    return None


def role_of_slot(p):
    if re.fullmatch(r'nu\d?', p):
        return 'size'
    if p in ('T', 'initial_t'):
        return 'time'
    if re.fullmatch(r'm\d\d', p):
        return 'mig'
    if re.fullmatch(r'gamma\d?', p):
        return 'sel'
    if re.fullmatch(r'h\d?', p):
        return 'dom'
    if re.fullmatch(r'f\d?', p):
        return 'frac'
    if p in ('theta0',):
        return 'theta'
    return None


def expr_roles(e, local_roles):
    """set of role classes of the model variables an argument expression is built from"""
    roles = set()
    for n in ast.walk(e):
        if isinstance(n, ast.Name):
            r = local_roles.get(n.id, role_of_name(n.id))
            if r:
                roles.add(r)
    return roles


DIM_NEW = {'phi_1D_to_2D': (1, 2), 'phi_2D_to_3D_split_1': (2, 3), 'phi_2D_to_3D_split_2': (2, 3), 'phi_2D_to_3D_admix': (2, 3), 'phi_2D_to_3D': (2, 3),
           'phi_3D_to_4D': (3, 4), 'phi_4D_to_5D': (4, 5)}
INTEG = {'one_pop': 1, 'two_pops': 2, 'three_pops': 3, 'four_pops': 4, 'five_pops': 5, 'one_pop_X': 1}


def model_functions(prog):
    out = []
    for mn in MODS:
        m = prog.mod(mn)
        for q, fn in m.funcs.items():
            if '.' in q or q.startswith('_'):
                continue
            out.append((m, fn))
    return out


def param_names_attr(m):
    """function name -> list literal assigned to f.__param_names__ at module level"""
    out = {}
    for st in m.tree.body:
        if isinstance(st, ast.Assign) and isinstance(st.targets[0], ast.Attribute) and st.targets[0].attr == '__param_names__' and isinstance(st.targets[0].value, ast.Name):
            try:
                out[st.targets[0].value.id] = (ast.literal_eval(st.value), st.lineno)
            except Exception:
                out[st.targets[0].value.id] = (None, st.lineno)
    return out


def run(rep, prog, tier):
    fns = model_functions(prog)
    if len(fns) < 100:
        raise AnalysisError('only %d model functions found (expected >= 100)' % len(fns))
    pn_by_mod = {m.name: param_names_attr(m) for m in {m for m, _ in fns}}
    all_pn = {}
    for mn, d in pn_by_mod.items():
        for k, v in d.items():
            all_pn[k] = v[0]
    n_calls = 0
    n_bind = 0
    for m, fn in fns:
        q = fn.name
        rel = m.rel
        rep.saw_file(rel)
        rep.saw_function(rel + ':' + q)
        generic.rule_name(rep, prog, m, fn)
        generic.rule_def(rep, m, fn)
        generic.rule_closure(rep, m, fn)      # size / rate functions built per population must bind their own values
        pn = pn_by_mod[m.name].get(q)
        params = positional_params(fn)
        # ---- (1) __param_names__ == unpacking -----------------------------------------------------------------
        unp = None
        for st in fn.body:
            if isinstance(st, ast.Assign) and isinstance(st.value, ast.Name) and st.value.id == params[0] and isinstance(st.targets[0], (ast.Tuple, ast.List)):
                unp = [e.id for e in st.targets[0].elts if isinstance(e, ast.Name)]
                break
            if isinstance(st, ast.Assign) and isinstance(st.value, ast.Name) and st.value.id == params[0] and isinstance(st.targets[0], ast.Name):
                unp = [st.targets[0].id]
                break
        if unp is None:
            seq = []
            for st in fn.body:
                if isinstance(st, ast.Assign) and isinstance(st.targets[0], ast.Name) and isinstance(st.value, ast.Subscript) and ast.unparse(st.value.value) == params[0] \
                        and isinstance(st.value.slice, ast.Constant) and st.value.slice.value == len(seq):
                    seq.append(st.targets[0].id)
            if seq:
                unp = seq
        if pn is None:
            rep.ob('R-IDX', '%s:%s __param_names__' % (rel, q), False, 'function has no __param_names__ attribute', rel, fn.lineno, what='model exposes __param_names__')
        else:
            names, line = pn
            if unp is None:
                ok = names == [] or params[0] not in names_in(ast.Module(body=fn.body, type_ignores=[]))
                okk = names == []
                rep.ob('R-IDX', '%s:%s __param_names__' % (rel, q), okk or ok, '__param_names__ = %s; params is not unpacked' % names, rel, line, what='names equal the unpacking of params')
            else:
                rep.ob('R-IDX', '%s:%s __param_names__' % (rel, q), names == unp, '__param_names__ = %s; unpacked = %s' % (names, unp), rel, line, what='names equal the unpacking of params, in order')
        if unp:
            used = set()
            for n in ast.walk(fn):
                if isinstance(n, ast.Name) and isinstance(n.ctx, ast.Load):
                    used.add(n.id)
            unused = [u for u in unp if u not in used]
            rep.ob('R-FLOW', '%s:%s parameters used' % (rel, q), not unused, 'unused parameters: %s' % unused if unused else 'all %d parameters are used' % len(unp), rel, fn.lineno,
                   what='every named parameter influences the model')
        # ---- local roles: derived variables inherit from their definition (nu_func, nu1_0 ...) ------------------------
        # (the name of a local says less than its definition: a local defined from quantities of one role has that role, whatever it
        # is called; the name decides only when the definition mixes roles or has none)
        local_roles = {}
        unpacked = set(unp or [])
        for n in own_nodes(fn):
            if isinstance(n, ast.Assign) and isinstance(n.targets[0], ast.Name):
                t = n.targets[0].id
                if t in unpacked:
                    continue
                rs = expr_roles(n.value, local_roles)
                if len(rs) == 1 and not isinstance(n.value, ast.Call):
                    local_roles[t] = next(iter(rs))
                elif role_of_name(t) is None and len(rs) == 1:
                    local_roles[t] = next(iter(rs))
        # ---- (2) calls ---------------------------------------------------------------------------------------------------
        for c in own_nodes(fn):
            if not isinstance(c, ast.Call):
                continue
            f = dotted(c.func) or ''
            if not (f.startswith('Integration.') or f.startswith('PhiManip.') or f.startswith('dadi.Integration.') or f.startswith('dadi.PhiManip.')):
                continue
            callee = prog.resolve_call(m, c, scope=fn)
            if callee is None:
                rep.ob('R-NAME', '%s:%s call %s' % (rel, q, f), False, 'callee does not exist', rel, c.lineno, what='callee exists')
                continue
            n_calls += 1
            rep.analysed['call_sites'] += 1
            b, problems = bind_call(callee, c)
            rep.ob('R-SIG', '%s:%s call %s' % (rel, q, f), not problems, '; '.join(problems) or 'conforms', rel, c.lineno, what='call conforms to %s' % callee.name)
            pairs = {}
            for p, val in b.items():
                slot_role = role_of_slot(p)
                if slot_role is None:
                    continue
                n_bind += 1
                roles = expr_roles(val, local_roles)
                okr = not roles or roles == {slot_role} or (slot_role == 'size' and roles <= {'size', 'frac', 'time'} and 'size' in roles | ({'size'} if roles == {'frac'} else set())) \
                    or (slot_role == 'size' and roles == {'frac'})
                if slot_role == 'size' and isinstance(val, (ast.Name,)) and roles == {'frac'}:
                    okr = True       # fraction of the ancestral population used as a starting size (Portik island/vicariance models)
                if slot_role == 'size' and roles and 'size' in roles and roles <= {'size', 'frac', 'time'}:
                    okr = True       # size functions nu(t) built from sizes, a split fraction and the epoch length
                if slot_role == 'time' and roles and roles <= {'time'}:
                    okr = True
                rep.ob('R-ROLE', '%s:%s %s(%s=)' % (rel, q, callee.name, p), okr, '%s=%s carries roles %s; slot role %s' % (p, ast.unparse(val)[:40], sorted(roles), slot_role), rel, val.lineno,
                       what='argument of role %s in slot %s of %s' % (sorted(roles), p, callee.name))
                # index rule
                if isinstance(val, ast.Name):
                    v = val.id
                    mi = re.fullmatch(r'm(\d)(\d)[A-Za-z_]*', v)
                    if mi and re.fullmatch(r'm\d\d', p):
                        rep.ob('R-IDX', '%s:%s %s(%s=)' % (rel, q, callee.name, p), v[:3] == p, 'variable %s passed as %s' % (v, p), rel, val.lineno, what='two-digit migration variable reaches the like-indexed parameter')
                    mk = re.fullmatch(r'(nu|gamma|h)(\d)', v)
                    mp = re.fullmatch(r'(nu|gamma|h)(\d)', p)
                    if mk and mp and mk.group(1) == mp.group(1):
                        rep.ob('R-IDX', '%s:%s %s(%s=)' % (rel, q, callee.name, p), v == p, 'variable %s passed as %s' % (v, p), rel, val.lineno, what='indexed variable reaches the like-indexed parameter')
                    if re.fullmatch(r'm\d\d', p) and not mi and role_of_name(v) == 'mig':
                        pairs[p] = v
            for p, v in pairs.items():
                rev_ = 'm' + p[2] + p[1]
                other = b.get(rev_)
                oks = other is not None and isinstance(other, ast.Name) and other.id == v
                rep.ob('R-IDX', '%s:%s %s symmetric %s' % (rel, q, callee.name, p), oks, 'symmetric rate %s bound to %s; %s receives %s' % (v, p, rev_, ast.unparse(other) if other is not None else 'its default 0'),
                       rel, c.lineno, what='a symmetric migration variable is bound to both directions')
        # ---- (3) dimension typestate -----------------------------------------------------------------------------------------
        findings = []

        def call_rule(an, e, args, kws, s, findings=findings):
            f = dotted(e.func) or ''
            last = f.split('.')[-1]
            root = f.split('.')[0] if '.' in f else ''
            if root in ('PhiManip', 'Integration') or f.startswith('dadi.PhiManip') or f.startswith('dadi.Integration'):
                if last in ('phi_1D', 'phi_1D_genic', 'phi_1D_snm', 'phi_1D_X'):
                    return 1
                if last in DIM_NEW:
                    need, new = DIM_NEW[last]
                    callee = prog.resolve_call(m, e, scope=fn)
                    bb, _ = bind_call(callee, e) if callee else ({}, [])
                    pv = next((an.ev(v, s) for k, v in bb.items() if k.startswith('phi')), None)
                    if isinstance(pv, int) and pv != need:
                        findings.append((e, '%s applied to a %dD density (needs %dD)' % (last, pv, need)))
                    return new
                if last in INTEG:
                    d = INTEG[last]
                    if args and isinstance(args[0], int) and args[0] != d:
                        findings.append((e, '%s applied to a %dD density' % (last, args[0])))
                    return d
                mp = re.fullmatch(r'phi_(\d)D_admix_.*', last)
                if mp:
                    d = int(mp.group(1))
                    if args and isinstance(args[0], int) and args[0] != d:
                        findings.append((e, '%s applied to a %dD density' % (last, args[0])))
                    return d
                if last == 'remove_pop':
                    return args[0] - 1 if args and isinstance(args[0], int) else None
                if last == 'filter_pops':
                    tk = e.args[2] if len(e.args) > 2 else next((k.value for k in e.keywords if k.arg == 'tokeep'), None)
                    return len(tk.elts) if isinstance(tk, (ast.List, ast.Tuple)) else None
                if last == 'reorder_pops':
                    return args[0] if args else None
                return None
            if last == 'from_phi' or last == 'from_phi_inbreeding':
                d = args[0] if args else None
                grids = e.args[2] if len(e.args) > 2 else next((k.value for k in e.keywords if k.arg == 'xxs'), None)
                if isinstance(d, int) and isinstance(grids, (ast.Tuple, ast.List)) and len(grids.elts) != d:
                    findings.append((e, 'from_phi receives a %dD density and %d grids' % (d, len(grids.elts))))
                if isinstance(d, int):
                    findings.append((e, None, d))
                return 'fs'
            return None
        an, exits = run_tags(fn, call_rule=call_rule)
        bad = [x for x in findings if len(x) == 2]
        dims = [x for x in findings if len(x) == 3]
        for e, msg in bad:
            rep.ob('R-DIM', '%s:%s' % (rel, q), False, msg, rel, e.lineno, what='density dimension matches the operation')
        mixed = [(e, a) for (e, a, k, s) in an.calls if a and a[0] == MIXED and (dotted(e.func) or '').split('.')[-1] in INTEG]
        for e, a in mixed:
            rep.ob('R-DIM', '%s:%s' % (rel, q), False, 'density has different dimensions on different paths at %s' % ast.unparse(e)[:50], rel, e.lineno, what='density dimension is path independent')
        if not bad and not mixed and dims:
            rep.ob('R-DIM', '%s:%s' % (rel, q), True, 'density dimension consistent through %d operations; spectrum sampled from a %dD density' % (len([c for c in an.calls]), dims[-1][2]), rel, fn.lineno,
                   what='density dimension matches every operation')
    rep.extra['model_functions'] = len(fns)
    rep.extra['integration_phimanip_calls'] = n_calls
    rep.extra['role_bindings'] = n_bind
    # (floors against vacuity; bindings are counted per argument that is written out, so a clean-up that drops arguments equal to the
    # callee's defaults, or merges sibling models, lowers the count without making the rule vacuous)
    if n_calls < 300 or n_bind < 700:
        raise AnalysisError('only %d calls / %d bindings analysed (expected >= 300 / 700)' % (n_calls, n_bind))
    check_wrappers(rep, prog, fns, all_pn)
    check_siblings(rep, prog, fns)
    check_zero_duration(rep, prog)
    # nested special cases run through different drivers (constant-parameter Python path vs the compiled time-dependent path): they
    # agree only if the C coefficient functions compute the same real-valued formulas (C truncates integer quotients, 1/2 == 0)
    from rules.c02 import rule_c_intdiv
    from sa.cfront import CProgram
    rule_c_intdiv(rep, CProgram())
    # admixture models reduce to their split siblings (f -> 0, f -> 1, zero duration) only if the shared deposition helper keeps the
    # source density: the interpolation weights and the end-of-grid spacings of PhiManip._admixture_intermediates (rule shared with C06)
    from rules import c06
    c06.check_deposition(rep, prog, prog.mod(c06.PM))
    rep.floor("R-ROLE", 700)
    rep.floor('R-IDX', 300)
    rep.floor('R-DIM', 80)


def check_zero_duration(rep, prog):
    """nesting at T = 0 rests on this: an integration of zero duration returns the density before any parameter function is
    evaluated (size functions such as nu0*(nuF/nu0)**(t/T) are undefined at T = 0), on the constant and on the time-dependent path"""
    im = prog.mod('dadi.Integration')
    for q in ('one_pop', 'two_pops', 'three_pops', 'four_pops', 'five_pops'):
        fn = prog.func('dadi.Integration', q)
        body = fn.body
        guard_i = None
        for i, st in enumerate(body):
            if isinstance(st, ast.If):
                node = st
                while isinstance(node, ast.If):
                    t = ast.unparse(node.test).replace(' ', '')
                    if t in ('T-initial_t==0', 'T==initial_t', 'initial_t==T', '0==T-initial_t') and any(isinstance(x, ast.Return) for x in node.body):
                        guard_i = i
                        break
                    node = node.orelse[0] if len(node.orelse) == 1 and isinstance(node.orelse[0], ast.If) else None
                if guard_i is not None:
                    break
        first_eval = None
        for i, st in enumerate(body):
            txt = ast.unparse(st)
            if isinstance(st, (ast.While, ast.For)) or 'ensure_1arg_func' in txt or '_const_params(' in txt or '_temporal_params(' in txt:
                first_eval = i
                break
        ok = guard_i is not None and (first_eval is None or guard_i < first_eval)
        rep.ob('R-DOM', 'Integration.%s zero duration' % q, ok,
               ('`T - initial_t == 0: return phi` is statement %d of the body, before the first evaluation of parameters (statement %s)' % (guard_i, first_eval)) if guard_i is not None
               else 'no unconditional zero-duration return before the parameters are used', im.rel, fn.lineno,
               what='a zero-length integration returns the density on every path before any parameter (function) is evaluated')


def check_wrappers(rep, prog, fns, all_pn):
    """a model that delegates to another model passes a literal tuple: element k corresponds to the callee's k-th parameter"""
    nw = 0
    for m, fn in fns:
        for c in own_nodes(fn):
            if not (isinstance(c, ast.Call) and isinstance(c.func, ast.Name) and c.func.id in all_pn and c.func.id != fn.name and c.args and isinstance(c.args[0], (ast.Tuple, ast.List))):
                continue
            callee_names = all_pn[c.func.id]
            if callee_names is None:
                continue
            tup = c.args[0].elts
            nw += 1
            ok = len(tup) == len(callee_names)
            det = []
            own = single_assignments(fn)
            for el, cn in zip(tup, callee_names):
                if isinstance(el, ast.Name):
                    v = el.id
                    same = v == cn
                    # symmetric value duplicated: m -> m12, m21 ; gamma -> gamma1, gamma2 ; h -> h1, h2 ; nu -> nu1 nu2
                    dup = re.fullmatch(r'%s\d+' % re.escape(v), cn) is not None
                    role_ok = role_of_name(v) == role_of_name(cn)
                    okk = same or dup or (role_ok and re.sub(r'\d', '', v) == re.sub(r'\d', '', cn))
                    if not okk:
                        ok = False
                        det.append('%s->%s' % (v, cn))
                elif isinstance(el, ast.Constant):
                    r = role_of_name(cn)
                    okk = (r in ('mig', 'sel', 'time') and el.value == 0) or (r == 'size' and el.value == 1) or (r == 'dom' and el.value == 0.5) or (r == 'frac' and el.value in (0, 1))
                    if not okk:
                        ok = False
                        det.append('%r->%s' % (el.value, cn))
                else:
                    rs = expr_roles(el, {})
                    if rs and role_of_name(cn) not in rs:
                        ok = False
                        det.append('%s->%s' % (ast.unparse(el), cn))
            rep.ob('R-NEST', '%s:%s -> %s' % (m.rel, fn.name, c.func.id), ok,
                   'passes (%s) to %s%s%s' % (', '.join(ast.unparse(e) for e in tup), c.func.id, callee_names, ('; mismatches: ' + ', '.join(det)) if det else ''), m.rel, c.lineno,
                   what='wrapper passes its parameters position by position to the richer model (neutral literal at the nesting point)')
    if nw < 10:
        raise AnalysisError('only %d delegating wrapper models found (expected >= 10)' % nw)


def mirror_names(txt):
    return re.sub(r'(?<![A-Za-z0-9_.])(nu|gamma|h|m|n|T|nu_)(\w*?)([12])(\w*)', lambda mm: mm.group(1) + mm.group(2) + ('2' if mm.group(3) == '1' else '1') + mm.group(4), txt)


def check_siblings(rep, prog, fns):
    """(a) mirrored pairs x1 = f(s), x2 = f(1-s);  (b) twins: model / model_sel / model_mscore define like-named sizes identically"""
    byname = {}
    for m, fn in fns:
        byname.setdefault(fn.name, []).append((m, fn))
    n_m = 0
    for m, fn in fns:
        asg = {}
        for n in own_nodes(fn):
            if isinstance(n, ast.Assign) and isinstance(n.targets[0], ast.Name):
                asg.setdefault(n.targets[0].id, []).append(n)
        for name, nodes in asg.items():
            mm = re.fullmatch(r'(\w*?)1(\w*)', name)
            if not mm or len(nodes) != 1:
                continue
            twin = mm.group(1) + '2' + mm.group(2)
            if twin not in asg or len(asg[twin]) != 1:
                continue
            v1, v2 = nodes[0].value, asg[twin][0].value
            if 's' not in names_in(v1) | names_in(v2):
                continue
            b1 = v1.body if isinstance(v1, ast.Lambda) else v1
            b2 = v2.body if isinstance(v2, ast.Lambda) else v2
            try:
                from sa.srcmodel import clone

                class Mirror(ast.NodeTransformer):
                    def visit_Name(self, n):
                        if n.id == 's':
                            return ast.BinOp(left=ast.Constant(value=1), op=ast.Sub(), right=ast.Name(id='s', ctx=ast.Load()))
                        if n.id in ('numpy', 'np', 'math', 't', 'T'):
                            return n
                        return ast.Name(id=n.id.translate(str.maketrans('12', '21')), ctx=n.ctx)
                img = Mirror().visit(clone(b1))
                ok = Translator().tr(img).equals(Translator().tr(b2))
            except (AlgebraError, SyntaxError):
                continue
            n_m += 1
            rep.ob('R-SYM', '%s:%s %s/%s' % (m.rel, fn.name, name, twin), ok, '%s = %s ; %s = %s' % (name, ast.unparse(v1)[:60], twin, ast.unparse(v2)[:60]), m.rel, nodes[0].lineno,
                   what='the definitions of the two daughter populations are mirror images (1<->2, s<->1-s)')
    # twins
    n_t = 0
    for name, lst in byname.items():
        for suffix in ('_sel', '_mscore', '_sel_single_gamma'):
            tw = byname.get(name + suffix)
            if not tw:
                continue
            (m1, f1), (m2, f2) = lst[0], tw[0]
            a1 = {n.targets[0].id: n for n in own_nodes(f1) if isinstance(n, ast.Assign) and isinstance(n.targets[0], ast.Name)}
            a2 = {n.targets[0].id: n for n in own_nodes(f2) if isinstance(n, ast.Assign) and isinstance(n.targets[0], ast.Name)}
            for k in sorted(set(a1) & set(a2)):
                if role_of_name(k) != 'size' and not k.endswith('_func'):
                    continue
                v1, v2 = a1[k].value, a2[k].value
                if isinstance(v1, ast.Call) or isinstance(v2, ast.Call) and not isinstance(v2, ast.Lambda):
                    if not (isinstance(v1, ast.Lambda) or isinstance(v2, ast.Lambda)):
                        if isinstance(v1, ast.Call) and (dotted(v1.func) or '').startswith(('Integration', 'PhiManip', 'Numerics', 'Spectrum')):
                            continue
                n_t += 1
                same = ast.unparse(v1) == ast.unparse(v2)
                if not same:
                    try:
                        b1 = v1.body if isinstance(v1, ast.Lambda) else v1
                        b2 = v2.body if isinstance(v2, ast.Lambda) else v2
                        same = Translator().tr(b1).equals(Translator().tr(b2))
                    except AlgebraError:
                        same = False
                rep.ob('R-TWIN', '%s / %s: %s' % (name, name + suffix, k), same, '%s: %s  |  %s: %s' % (name, ast.unparse(v1)[:60], name + suffix, ast.unparse(v2)[:60]), m2.rel, a2[k].lineno,
                       what='twin models define the intermediate size %s by the same expression' % k)
    # sym / asym twins: same sequence of operations, differing only in how the migration slots are filled
    n_s = 0
    for name, lst in byname.items():
        if '_asym_' not in name and not name.endswith('_asym'):
            continue
        sname = name.replace('_asym_', '_sym_') if '_asym_' in name else name[:-5] + '_sym'
        tw = byname.get(sname)
        if not tw:
            continue
        (m1, f1), (m2, f2) = lst[0], tw[0]

        def ops(m, fn):
            out = []
            for c in own_nodes(fn):
                if isinstance(c, ast.Call) and (dotted(c.func) or '').startswith(('Integration.', 'PhiManip.')):
                    callee = prog.resolve_call(m, c, scope=fn)
                    if callee is None:
                        continue
                    b, _ = bind_call(callee, c)
                    out.append((c.lineno, callee.name, {k: ast.unparse(v) for k, v in b.items() if not re.fullmatch(r'm\d\d', k)}, {k: ast.unparse(v) for k, v in b.items() if re.fullmatch(r'm\d\d', k)}))
            return sorted(out)
        # the symmetric variant may simply delegate to the asymmetric one: then they perform the same operations by construction,
        # provided every parameter reaches the like-named parameter of the sibling and both migration rates receive the single rate
        dele = [n for n in own_nodes(f2) if isinstance(n, ast.Return) and isinstance(n.value, ast.Call) and dotted(n.value.func) == name]
        if dele and not any(isinstance(c, ast.Call) and (dotted(c.func) or '').startswith(('Integration.', 'PhiManip.')) for c in own_nodes(f2)):
            unp1, unp2 = unpacked_names(f1), unpacked_names(f2)
            call = dele[0].value
            vec = call.args[0] if call.args else None
            okd = isinstance(vec, (ast.Tuple, ast.List)) and unp1 is not None and unp2 is not None and len(vec.elts) == len(unp1) and \
                [ast.unparse(a) for a in call.args[1:]] == positional_params(f2)[1:]
            if okd:
                for pn, el in zip(unp1, vec.elts):
                    got = ast.unparse(el)
                    if re.fullmatch(r'm\d\d\w*', pn):
                        okd = okd and got in unp2 and re.fullmatch(r'm\w*', got) is not None and not re.fullmatch(r'm\d\d\w*', got)
                    else:
                        okd = okd and got == pn
            n_s += 1
            rep.ob('R-TWIN', '%s / %s operations' % (name, sname), bool(okd), '%s delegates to %s(%s)' % (sname, name, ast.unparse(vec)[:80] if vec is not None else '?'), m1.rel, f1.lineno,
                   what='asymmetric and symmetric variants of a model perform the same operations apart from the migration rates')
            continue
        o1, o2 = ops(m1, f1), ops(m2, f2)
        same = len(o1) == len(o2) and all(a[1] == b[1] and a[2] == b[2] for a, b in zip(o1, o2))
        # migration: zero in one <=> zero in the other
        samez = same and all({k for k, v in a[3].items() if v != '0'} == {k for k, v in b[3].items() if v != '0'} for a, b in zip(o1, o2))
        n_s += 1
        if (name, sname) in TWIN_EXCEPTIONS:
            rep.note('R-TWIN exception %s / %s: %s' % (name, sname, TWIN_EXCEPTIONS[(name, sname)]))
            continue
        diff = ''
        if not same:
            for a, b in zip(o1, o2):
                if a[1] != b[1] or a[2] != b[2]:
                    diff = '%s line %d: %s(%s) vs %s line %d: %s(%s)' % (name, a[0], a[1], {k: v for k, v in a[2].items() if b[2].get(k) != v}, sname, b[0], b[1], {k: v for k, v in b[2].items() if a[2].get(k) != v})
                    break
        rep.ob('R-TWIN', '%s / %s operations' % (name, sname), same and samez, diff or '%d operations with identical sizes, times and grids; migration switched on in the same epochs' % len(o1), m1.rel, f1.lineno,
               what='asymmetric and symmetric variants of a model perform the same operations apart from the migration rates')
    rep.extra['sym_asym_twins'] = n_s
    rep.extra['mirror_pairs'] = n_m
    rep.extra['twin_definitions'] = n_t
