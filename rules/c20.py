"""C20 - Results are independent of call history; inputs are never modified in place (DESIGN.md C20)."""
import ast, re
from sa import generic
from sa.effects import compute_summaries, Val, mutable_globals
from sa.pyxfront import ext_table
from sa.extract import single_assignments, inline, names_in
from sa.srcmodel import own_nodes, dotted, positional_params, func_params, bound_locals, enclosing_function
from sa.report import AnalysisError

EXPLANATION = (
    "Decides, by an interprocedural effect analysis (may-mutate, may-alias and C-layout summaries iterated to a fixpoint over "
    "the whole package, with the compiled kernels' effects read from the .pyx wrappers): (1) R-PURE - no public function or "
    "method of the ten anchored modules writes into a formal parameter (subscript/attribute stores, in-place operators, "
    "mutating methods, out=, or passing it to a callee/kernel that writes it) unless its docstring says it works in place; "
    "(2) the five integrators return an array that aliases no argument; (3) R-LAYOUT - every compiled in-place kernel is "
    "handed an array that the calling function owns and that is known C-contiguous (x.copy(), zeros, ...), directly or through "
    "private helpers all of whose callers do so; (4) memo transparency - values read out of the module-level memo caches are "
    "never written by any function of the package (the only writes are the memo fills themselves); (5) R-KEY - for each of the "
    "eight memo caches the key covers every input the cached value depends on and contains no recyclable hash()/id(); "
    "(6) R-ORD - set-typed values reach order-sensitive consumers only through sorted(); (7) Spectrum.S() restores the mask "
    "it changes on every path. Comparison with a fresh interpreter at run time is not decided.")
TECHNIQUE = "interprocedural effect/alias/layout summaries + memo-key dependence analysis + set-order typestate"
DECLINED = ["bit-for-bit comparison against a fresh interpreter", "layout of the grid arrays handed to kernels (recorded as a note)",
            "effects of objects stored into local containers and mutated through them (documented unsoundness of the alias abstraction)"]
ASSUMPTIONS = ["ndarray.copy() returns a C-contiguous array (numpy default order='C')",
               "the compiled wrappers behave as their .pyx source says: they write through <double*> X.data and return X"]

ANCHORED = ['dadi.Numerics', 'dadi.Spectrum_mod', 'dadi.Integration', 'dadi.PhiManip', 'dadi.Godambe', 'dadi.Inference', 'dadi.Misc',
            'dadi.Demes', 'dadi.Demes.Demes', 'dadi.NLopt_mod']
INPLACE_RE = re.compile(r'in[- ]?place|inplace', re.I)
INTEGRATORS = ['one_pop', 'two_pops', 'three_pops', 'four_pops', 'five_pops']
CACHES = [('dadi.Numerics', 'multinomln', '_multinomln_cache'), ('dadi.Numerics', 'BetaBinomln', '_BetaBinomln_cache'),
          ('dadi.Numerics', 'cached_part', '_part_cache'), ('dadi.Numerics', 'cached_part_precalc', '_part_precalc_cache'),
          ('dadi.Numerics', '_cached_projection', '_projection_cache'), ('dadi.Spectrum_mod', 'cached_dbeta', '_dbeta_cache'),
          ('dadi.Godambe', 'get_godambe.func', 'cache'),
          ('dadi.LowPass.LowPass', 'make_low_pass_func_GATK_multisample.lowpass_func', 'precalc_cache')]
# public functions outside the property's categories (file parsers / table writers): reported as notes, not verdicts
NOTE_ONLY = {('dadi.Misc', 'make_fux_table'): 'legacy helper for ancestral-misidentification tables; not an integrator, spectrum method, likelihood or optimiser helper',
             ('dadi.Misc', 'dd_from_SLiM_files'): 'file parser; the flagged store is into a local dictionary paired with the file list by zip()'}


def is_public(fn):
    q = fn._qualname
    parts = q.split('.')
    if len(parts) > 2:
        return False
    if len(parts) == 2 and getattr(fn, '_class', None) is None:
        return False    # nested function
    return not parts[-1].startswith('_')


def param_deps(fn, roots, extra_scope=()):
    """transitive may-dependence of local names on the parameters / enclosing variables (flow-insensitive def-use closure)"""
    deps = {}
    params = set(func_params(fn)) | set(extra_scope)
    for p in params:
        deps[p] = {p}
    edges = {}

    def add(tgt, srcs):
        edges.setdefault(tgt, set()).update(srcs)
    for n in own_nodes(fn):
        if isinstance(n, ast.Assign):
            src = names_in(n.value)
            for t in n.targets:
                for x in ast.walk(t):
                    if isinstance(x, ast.Name) and isinstance(x.ctx, ast.Store):
                        add(x.id, src)
                    elif isinstance(x, ast.Name):
                        pass
                if isinstance(t, (ast.Subscript, ast.Attribute)):
                    root = t
                    while isinstance(root, (ast.Subscript, ast.Attribute)):
                        root = root.value
                    if isinstance(root, ast.Name):
                        add(root.id, src | names_in(t))
        elif isinstance(n, ast.AugAssign):
            root = n.target
            while isinstance(root, (ast.Subscript, ast.Attribute)):
                root = root.value
            if isinstance(root, ast.Name):
                add(root.id, names_in(n.value) | names_in(n.target))
        elif isinstance(n, (ast.For, ast.comprehension)):
            for x in ast.walk(n.target):
                if isinstance(x, ast.Name):
                    add(x.id, names_in(n.iter))
        elif isinstance(n, ast.Expr) and isinstance(n.value, ast.Call) and isinstance(n.value.func, ast.Attribute) \
                and n.value.func.attr in ('append', 'extend', 'insert', 'update', 'add'):
            root = n.value.func.value
            while isinstance(root, (ast.Subscript, ast.Attribute)):
                root = root.value
            if isinstance(root, ast.Name):
                add(root.id, names_in(n.value))
    changed = True
    while changed:
        changed = False
        for t, srcs in edges.items():
            cur = deps.setdefault(t, set() | ({t} if t in params else set()))
            new = set(cur)
            for s_ in srcs:
                new |= deps.get(s_, set())
            if new != cur:
                deps[t] = new
                changed = True
    out = set()
    for r in roots:
        out |= deps.get(r, set())
    return out & params


def _parent_chain_whole(root, target):
    """True when `target` (a Name inside expression `root`) reaches the root only through tuple displays and
    whole-object conversions (tuple(), frozenset(), str(), repr(), bytes(), .tobytes(), tuple(map(tuple, x)))"""
    path = []

    def find(n, acc):
        if n is target:
            path.extend(acc)
            return True
        for ch in ast.iter_child_nodes(n):
            if find(ch, acc + [n]):
                return True
        return False
    if not find(root, []):
        return False
    for anc in path:
        if isinstance(anc, (ast.Tuple,)):
            continue
        if isinstance(anc, ast.Call):
            f = dotted(anc.func) or ''
            last = f.split('.')[-1]
            if last in ('tuple', 'frozenset', 'str', 'repr', 'bytes', 'tobytes', 'map', 'float', 'int'):
                continue
            return False
        if isinstance(anc, ast.Attribute) and anc.attr == 'tobytes':
            continue
        if isinstance(anc, (ast.Starred, ast.Load)):
            continue
        return False
    return True


def rule_key_full(rep, prog, modname, qual, cache_name):
    m = prog.mod(modname)
    fn = prog.func(modname, qual)
    enc = enclosing_function(fn)
    cache_is_global = cache_name in m.bound
    # variables whose lifetime is shorter than the cache's must be in the key
    scope = set(func_params(fn))
    extra = set()
    if enc is not None and cache_is_global:
        extra = bound_locals(enc)[0] - {fn.name}
    stores = []
    for n in own_nodes(fn):
        if isinstance(n, ast.Assign):
            for t_ in n.targets:
                if isinstance(t_, ast.Subscript) and ast.unparse(t_.value) == cache_name:
                    # (a chained assignment `x = cache[key] = value` stores as well: seen as `cache[key] = value`)
                    if t_ is n.targets[0]:
                        stores.append(n)
                    else:
                        stores.append(ast.copy_location(ast.Assign(targets=[t_], value=n.value), n))
    if not stores:
        raise AnalysisError('anchor vanished: no store into %s in %s:%s' % (cache_name, m.rel, qual))
    singles = single_assignments(fn)
    for st in stores:
        key = inline(st.targets[0].slice, singles)
        bad = [n for n in ast.walk(key) if isinstance(n, ast.Call) and (dotted(n.func) or '').split('.')[-1] in ('__hash__', 'hash', 'id')]
        rep.ob('R-KEY', '%s:%s %s' % (m.rel, qual, cache_name), not bad,
               ('key %s contains %s of an object the cache does not retain' % (ast.unparse(key), ast.unparse(bad[0]))) if bad
               else 'key %s holds the objects themselves' % ast.unparse(key), m.rel, st.lineno, what='key contains no recyclable hash()/id()')
        vdeps = param_deps(fn, names_in(st.value), extra)
        kdeps = param_deps(fn, names_in(st.targets[0].slice), extra)
        # module-level functions / imports are not inputs
        vdeps = {v for v in vdeps if v in scope or v in extra}
        missing = sorted(v for v in vdeps - kdeps if v != cache_name)
        # every input must enter the key WHOLE (p, tuple(p), p.tobytes() ...), not through a lossy projection (len(p), p[1], p.sum())
        keyexpr = inline(st.targets[0].slice, singles)
        lossy = []
        for v in sorted(vdeps & kdeps):
            whole = False
            for nnode in ast.walk(keyexpr):
                if isinstance(nnode, ast.Name) and nnode.id == v:
                    par = _parent_chain_whole(keyexpr, nnode)
                    if par:
                        whole = True
            if not whole and v in names_in(keyexpr):
                lossy.append(v)
        rep.ob('R-KEY', '%s:%s %s' % (m.rel, qual, cache_name), not lossy,
               ('input(s) %s enter the key %s only through lossy projections (length, single elements, reductions): different inputs share a key' % (lossy, ast.unparse(keyexpr))) if lossy
               else 'every input enters the key as a whole object', m.rel, st.lineno, what='key determines every input (no lossy projection)')
        rep.ob('R-KEY', '%s:%s %s' % (m.rel, qual, cache_name), not missing,
               'cached value depends on %s; key %s depends on %s%s' % (sorted(vdeps), ast.unparse(st.targets[0].slice), sorted(kdeps),
                                                                    ('; key omits ' + ', '.join(missing)) if missing else ''),
               m.rel, st.lineno, what='key covers every input of the cached value')
    # the lookup uses the same key expression as the store
    loads = [n for n in own_nodes(fn) if isinstance(n, ast.Subscript) and isinstance(n.ctx, ast.Load) and ast.unparse(n.value) == cache_name]
    tests = [n for n in own_nodes(fn) if isinstance(n, ast.Compare) and isinstance(n.ops[0], (ast.In, ast.NotIn)) and ast.unparse(n.comparators[0]) == cache_name]
    keytxt = {ast.unparse(inline(st.targets[0].slice, singles)) for st in stores}
    gets = [n for n in own_nodes(fn) if isinstance(n, ast.Call) and isinstance(n.func, ast.Attribute) and n.func.attr in ('get', 'pop', 'setdefault') and ast.unparse(n.func.value) == cache_name and n.args]
    used = {ast.unparse(inline(n.slice, singles)) for n in loads} | {ast.unparse(inline(n.left, singles)) for n in tests} | {ast.unparse(inline(n.args[0], singles)) for n in gets}
    used = {u.strip('()') for u in used}
    keytxt = {k.strip('()') for k in keytxt}
    rep.ob('R-KEY', '%s:%s %s' % (m.rel, qual, cache_name), used <= keytxt and bool(used),
           'lookups use %s; stores use %s' % (sorted(used), sorted(keytxt)), m.rel, fn.lineno, what='lookup and store use the same key')


def run(rep, prog, tier):
    ext, ic, tc = ext_table()
    rep.saw_file('dadi/integration_c.pyx')
    rep.saw_file('dadi/tridiag_cython.pyx')
    summaries, results, rounds = compute_summaries(prog, ext)
    rep.extra['summary_rounds'] = rounds
    rep.extra['functions_summarised'] = len(summaries)

    # ---- (1) R-PURE over public functions of the anchored modules -------------------------------------
    # methods whose only write to self is the temporary re-masking of Spectrum.S (restored on every path, rule R-RESTORE)
    sm_mod = prog.mod('dadi.Spectrum_mod')
    restoring = {'Spectrum.S'}
    grew = True
    while grew:
        grew = False
        for q, fn in sm_mod.funcs.items():
            smx = summaries[id(fn)]
            w = smx.why.get('self')
            if q not in restoring and w and any(("to %s," % r) in w[1] for r in restoring):
                restoring.add(q)
                grew = True
    n_pub = 0
    for modname in ANCHORED:
        m = prog.mod(modname)
        rep.saw_file(m.rel)
        for q, fn in m.funcs.items():
            if not is_public(fn):
                continue
            if getattr(fn, '_generated', False):
                continue
            sm = summaries[id(fn)]
            n_pub += 1
            rep.saw_function(m.rel + ':' + q)
            doc = ast.get_docstring(fn) or ''
            cls = getattr(fn, '_class', None)
            selfname = positional_params(fn)[0] if (cls is not None and positional_params(fn) and
                                                    not any(isinstance(d, ast.Name) and d.id == 'staticmethod' for d in fn.decorator_list)) else None
            mut = sorted(p for p in sm.mutates if p != selfname)
            if (modname, q) in NOTE_ONLY and mut:
                rep.note('R-PURE note %s:%s writes parameter(s) %s: %s (%s)' % (m.rel, q, mut, sm.why[mut[0]][1], NOTE_ONLY[(modname, q)]))
                continue
            documented = bool(INPLACE_RE.search(doc))
            ok = not mut or documented
            det = 'no formal parameter is written' if not mut else \
                ('writes %s (%s at line %d)%s' % (mut, sm.why[mut[0]][1], sm.why[mut[0]][0], '; docstring documents in-place operation' if documented else
                                                   '; the docstring does not say the function works in place'))
            rep.ob('R-PURE', '%s:%s' % (m.rel, q), ok, det, m.rel, sm.why[mut[0]][0] if mut else fn.lineno, what='parameters are not modified' if not mut else 'modifies ' + ','.join(mut))
            # methods: self may be written only by documented in-place methods, dunders and constructors
            if selfname and selfname in sm.mutates and not q.split('.')[-1].startswith('__'):
                oks = documented or q.split('.')[-1] in ('mask_corners', 'unmask_all')
                if q in restoring and modname == 'dadi.Spectrum_mod':
                    continue   # temporary re-masking through S(): handled by the save/restore rule below
                rep.ob('R-PURE', '%s:%s self' % (m.rel, q), oks, 'writes self (%s at line %d)' % (sm.why[selfname][1], sm.why[selfname][0]), m.rel,
                       sm.why[selfname][0], what='method modifies its own object only when documented')
    if n_pub < 140:
        raise AnalysisError('only %d public functions found in the anchored modules (expected >= 140)' % n_pub)

    # ---- (2) integrators return fresh arrays --------------------------------------------------------------
    im = prog.mod('dadi.Integration')
    for name in INTEGRATORS:
        fn = prog.func('dadi.Integration', name)
        sm = summaries[id(fn)]
        an = results[id(fn)]
        pr = sorted(p for p in sm.ret_alias if not p.startswith('G:'))
        rep.ob('R-FRESH', 'Integration.%s return' % name, not pr,
               ('a returned value may alias parameter(s) %s' % pr) if pr else 'every returned array is owned by the call (%d return paths)' % len(an.rets),
               im.rel, fn.lineno, what='integrator returns a fresh array')

    # ---- (3) R-LAYOUT: kernels are handed owned, C-contiguous arrays ------------------------------------------
    callers = {}
    for (fid, an) in results.items():
        for (e, callee, vals) in an.calls:
            callers.setdefault(id(callee), []).append((an, e, vals))

    def layout_ok(an, v, depth=0, seen=None):
        """v: Val of the array handed to a kernel inside an.fn"""
        seen = seen or set()
        if not v.al:
            return (v.lay == 'C'), ('owned, layout %s' % ('C-contiguous' if v.lay == 'C' else 'unknown'))
        fn = an.fn
        if id(fn) in seen or depth > 6:
            return True, 'recursive'
        seen = seen | {id(fn)}
        if is_public(fn) or not fn._qualname.startswith('_'):
            return False, 'array is (a view of) parameter %s of public function %s: caller-owned memory of unknown layout' % (sorted(v.al), fn._qualname)
        sites = callers.get(id(fn), [])
        if not sites:
            return False, 'private function %s receives the array as parameter %s and has no analysed caller' % (fn._qualname, sorted(v.al))
        for (can, ce, vals) in sites:
            for p in v.al:
                if p.startswith('G:'):
                    return False, 'array comes from module-level container %s' % p
                av = vals.get(p)
                if av is None:
                    return False, 'caller %s does not bind %s' % (can.fn._qualname, p)
                ok, why = layout_ok(can, av, depth + 1, seen)
                if not ok:
                    return False, 'via %s (line %d): %s' % (can.fn._qualname, ce.lineno, why)
        return True, 'private helper; all %d caller(s) pass an owned C-contiguous array' % len(sites)

    nk = 0
    for modname in ('dadi.Integration',):
        m = prog.mod(modname)
        for q, fn in m.funcs.items():
            an = results[id(fn)]
            seen_k = set()
            for (e, v, label) in an.kernel_calls:
                if id(e) in seen_k:
                    continue
                seen_k.add(id(e))
                nk += 1
                ok, why = layout_ok(an, v)
                rep.analysed['call_sites'] += 1
                rep.ob('R-LAYOUT', '%s:%s %s' % (m.rel, q, label), ok, why, m.rel, e.lineno, what='kernel argument is owned and C-contiguous')
    if nk < 20:
        raise AnalysisError('only %d compiled-kernel call sites found in Integration.py (expected >= 20)' % nk)
    # kernel calls elsewhere in the package (none expected outside cuda): report as notes
    for (fid, an) in results.items():
        if an.m.name != 'dadi.Integration' and an.kernel_calls:
            for (e, v, label) in an.kernel_calls:
                ok, why = layout_ok(an, v)
                if 'cuda' in an.m.name:
                    rep.note('kernel call outside Integration.py: %s:%s %s (%s)' % (an.m.rel, an.fn._qualname, label, why))
                else:
                    rep.ob('R-LAYOUT', '%s:%s %s' % (an.m.rel, an.fn._qualname, label), ok, why, an.m.rel, e.lineno, what='kernel argument is owned and C-contiguous')

    # ---- (4) memo transparency: no write through a value read from a module-level memo cache -----------------
    memo_names = {'G:%s.%s' % (mn, c) for (mn, q, c) in CACHES if c in prog.mod(mn).bound}
    n_fill = 0
    for (fid, an) in results.items():
        if any(x in an.m.name for x in ('cuda', 'Triallele', 'TwoLocus', 'Plotting')):
            continue
        for (g, node, text, direct) in an.gmut:
            if g not in memo_names:
                continue
            if direct:
                n_fill += 1
                continue
            rep.ob('R-MEMO', '%s:%s' % (an.m.rel, an.fn._qualname), False,
                   '%s writes into an object read from memo cache %s: later lookups return the modified value' % (text, g[2:]), an.m.rel,
                   getattr(node, 'lineno', 0), what='memoised value from %s is modified' % g[2:])
    rep.ob('R-MEMO', 'package-wide', True, '%d direct memo fills found; no function of the package writes through a value read from %d memo caches'
           % (n_fill, len(memo_names)), 'dadi/Numerics.py', 1, what='memoised values are never modified') if not any(o.rule == 'R-MEMO' and not o.ok for o in rep.obls) else None
    # consumers of memoised values: returned aliases of caches are listed for the evidence
    consumers = []
    for (fid, sm) in summaries.items():
        pass
    for modname, qual, cname in CACHES:
        rule_key_full(rep, prog, modname, qual, cname)
    rep.floor('R-KEY', 24)

    # ---- (6) R-ORD --------------------------------------------------------------------------------------------
    nset = 0
    for modname in ANCHORED + ['dadi.Demes.DemesUtil']:
        m = prog.mod(modname)
        for q, fn in m.funcs.items():
            setvars = set()
            for n in own_nodes(fn):
                if isinstance(n, ast.Assign) and isinstance(n.targets[0], ast.Name):
                    v = n.value
                    if isinstance(v, (ast.Set, ast.SetComp)) or (isinstance(v, ast.Call) and dotted(v.func) in ('set', 'frozenset')):
                        setvars.add(n.targets[0].id)
            for sv in sorted(setvars):
                for n in own_nodes(fn):
                    uses = []
                    if isinstance(n, ast.For) and isinstance(n.iter, ast.Name) and n.iter.id == sv:
                        # order-insensitive loop body: only stores into dict entries keyed by the loop variable
                        body_stores_only = all(isinstance(x, (ast.Assign, ast.For, ast.Expr)) for x in n.body)
                        nset += 1
                        keyed = all((isinstance(x, ast.Assign) and (isinstance(x.targets[0], ast.Subscript) or names_in(x.targets[0]) <= names_in(n.target) | {'key'}))
                                    or isinstance(x, ast.For) for x in n.body)
                        if keyed:
                            rep.note('R-ORD note %s:%s iterates set %s directly; the loop only fills dictionary entries keyed by the element '
                                     '(content independent of order, insertion order follows the hash seed)' % (m.rel, q, sv))
                        else:
                            rep.ob('R-ORD', '%s:%s set %s' % (m.rel, q, sv), False, 'for-loop iterates the set directly', m.rel, n.lineno, what='set iterated without sorted()')
                    if isinstance(n, ast.Call) and dotted(n.func) in ('list', 'tuple', 'enumerate', 'numpy.array', 'numpy.asarray', 'zip') \
                            and any(isinstance(a, ast.Name) and a.id == sv for a in n.args):
                        par = getattr(n, '_parent', None)
                        fenced = isinstance(par, ast.Call) and dotted(par.func) == 'sorted'
                        nset += 1
                        rep.ob('R-ORD', '%s:%s set %s' % (m.rel, q, sv), fenced, '%s %s' % (ast.unparse(n), 'is wrapped in sorted()' if fenced else 'is consumed in hash order'),
                               m.rel, n.lineno, what='set reaches ordered consumer only through sorted()')
                    if isinstance(n, ast.Call) and dotted(n.func) == 'sorted' and any(isinstance(a, ast.Name) and a.id == sv for a in n.args):
                        nset += 1
                        rep.ob('R-ORD', '%s:%s set %s' % (m.rel, q, sv), True, ast.unparse(n), m.rel, n.lineno, what='set reaches ordered consumer only through sorted()')
    if nset < 2:
        raise AnalysisError('fewer than 2 set-consumption sites found')

    # ---- (7) Spectrum.S() save / restore ------------------------------------------------------------------------
    sm_ = prog.mod('dadi.Spectrum_mod')
    sfn = prog.func('dadi.Spectrum_mod', 'Spectrum.S')
    body = [x for x in sfn.body if not (isinstance(x, ast.Expr) and isinstance(x.value, ast.Constant))]
    saves = [x for x in body if isinstance(x, ast.Assign) and 'self.mask' in ast.unparse(x.value) and isinstance(x.targets[0], ast.Name)]
    oks = False
    det = 'no save of self.mask found'
    if saves:
        sv = saves[0].targets[0].id
        copied = 'copy' in ast.unparse(saves[0].value)
        restores = [x for x in body if isinstance(x, ast.Assign) and ast.unparse(x.targets[0]) == 'self.mask' and ast.unparse(x.value) == sv]
        rets = [x for x in body if isinstance(x, ast.Return)]
        oks = copied and len(restores) == 1 and len(rets) == 1 and body.index(restores[0]) < body.index(rets[0]) and \
            not any(isinstance(x, (ast.If, ast.Try, ast.Return, ast.Raise)) for x in body[body.index(saves[0]):body.index(restores[0])])
        det = 'mask saved as a copy (%s), restored once before the single return, no early exit in between' % ast.unparse(saves[0])
    rep.ob('R-RESTORE', 'Spectrum.S', oks, det, sm_.rel, sfn.lineno, what='temporary re-masking is undone on every path')
    rep.floor("R-PURE", 140)
    rep.floor('R-FRESH', 5)
