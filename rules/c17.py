"""C17 - DFE integration is the documented quadrature of a schedule-independent cache (DESIGN.md C17)."""
import ast, re
from fractions import Fraction
from sa import generic
from sa.algebra import Rat, Translator, AlgebraError, parse_expr
from sa.cfront import CProgram, CFor, CAssign, CDecl, CIf, CExpr, CReturn, unparse
from sa.extract import single_assignments, inline, names_in
from sa.srcmodel import own_nodes, dotted, positional_params, bind_call
from sa.tags import TagAnalysis, run_tags, MIXED
from sa.pyxfront import PyxModule
from sa.report import AnalysisError

EXPLANATION = (
    "Decides, for all pdfs, parameters and cache contents: (1) theta-homogeneity - a degree analysis (theta: 1; cached spectra, "
    "pdf weights, quadrature results, proportions: 0; products add, sums require equal degrees) shows that every integrate*, "
    "mixture* and Vourlaki_mixture result has degree 1 and that only degree-0 values are stored into the theta-free caches; "
    "(2) weights sum to one - the four quadrant weights of the 2-D point-mass model (with the square root as an atom), the "
    "mixture weights and the six Vourlaki weights are identically 1; (3) quadrature structure - trapezoid over neg_gammas, "
    "each edge/corner tail term pairs the spectrum slice with the weight integrated over the matching half-line and argument "
    "slot (index 0 <-> [min_gamma, inf), index -1 <-> [0, max_gamma]; gamma2 weights integrate the SECOND argument), the "
    "symmetric shortcut reuses only mirrored quantities, and all four corner masses are present; (4) schedule independence - "
    "results carry their index and are stored by it, the job predicate this_eval % split_jobs == this_job_id with an "
    "unconditional counter is identical in the single- and multi-process builders, each worker's except branch appends the "
    "exception object (never swallows it) and the collector destructures every item, merge raises on conflict and on any "
    "missing entry before returning; (5) compiled pdfs - the C bivariate lognormal equals the Python reference (q, norm and "
    "parameter layouts), the C independent-gamma density uses (alpha_k, beta_k) consistently in power, exponential and "
    "normaliser of each marginal, and the Lanczos table/recurrence are the published g=7, n=9 ones. Quadrature accuracy, "
    "scipy and real multiprocessing schedules are not decided."
    ' R-LOOKUP: self.gammas is extended in user / call order (concatenate, append), so the cached spectrum of a point mass is selected by equality with the requested gamma, never by an order-based search (searchsorted / bisect / digitize).')
TECHNIQUE = "theta-degree typestate + sortedness typestate of the cached gamma array (equality lookup) + rational identities (weights) + tail-term pairing templates + worker/collector error discipline + C/Python pdf normal forms"
DECLINED = ["quadrature accuracy and scipy.integrate internals", "real multiprocessing schedules", "numerical pdf values"]

C1 = 'dadi.DFE.Cache1D_mod'
C2 = 'dadi.DFE.Cache2D_mod'
VO = 'dadi.DFE.Vourlaki2022'


def _last(n):
    return (n or '').split('.')[-1]


# ---------------------------------------------------------------------------
# theta degree analysis
# ---------------------------------------------------------------------------

class DegAnalysis(TagAnalysis):
    """tags: 0, 1, 'bad:...' (None = no information)"""

    def jt(self, a, b):
        if a == b:
            return a
        if a is None:
            return b
        if b is None:
            return a
        if isinstance(a, str) and a.startswith('bad'):
            return a
        if isinstance(b, str) and b.startswith('bad'):
            return b
        return 'bad:sum of degree %s and degree %s' % (a, b)

    def const_tag(self, e):
        return 0 if isinstance(e.value, (int, float)) and not isinstance(e.value, bool) else None


def deg_rules(rep, prog, m, fn, method_degrees, stores, label):
    cacheattrs = ('spectra', 'neu_spec')
    bad_sums = []

    def attr_rule(an, e, s):
        if e.attr in cacheattrs:
            return 0
        if e.attr in ('neg_gammas', 'gammas', 'params', 'ns', 'pts', 'data'):
            return an.ev(e.value, s) if e.attr == 'data' else 0
        return NotImplemented

    def binop_rule(an, e, l, r, s):
        if isinstance(e.op, ast.Mult):
            if isinstance(l, int) and isinstance(r, int):
                return l + r
            if isinstance(l, str) or isinstance(r, str):
                return l if isinstance(l, str) else r
            return l if r is None else r if l is None else None
        if isinstance(e.op, ast.Div):
            if isinstance(l, int) and isinstance(r, int):
                return l - r
            return l
        if isinstance(e.op, (ast.Add, ast.Sub)):
            if isinstance(l, int) and isinstance(r, int) and l != r:
                # adding the literal 0 / a degree-0 CONSTANT is polymorphic only for the literal zero
                if (isinstance(e.left, ast.Constant) and e.left.value == 0) or (isinstance(e.right, ast.Constant) and e.right.value == 0):
                    return max(l, r)
                bad_sums.append((e, l, r))
                return 'bad:sum of degree %s and degree %s' % (l, r)
            return an.jt(l, r)
        return NotImplemented

    def call_rule(an, e, args, kws, s):
        f = dotted(e.func) or ''
        last = _last(f)
        if last in method_degrees and isinstance(e.func, ast.Attribute):
            # theta argument decides the degree of the result
            callee_params = method_degrees[last]
            b = {}
            for i, a in enumerate(e.args):
                if i < len(callee_params):
                    b[callee_params[i]] = a
            for k in e.keywords:
                b[k.arg] = k.value
            if 'theta' in b:
                return an.ev(b['theta'], s)
            return None
        if last in ('sel_dist', 'biv_seldist', 'sel_dist1', 'sel_dist2', 'gamma', 'biv_ind_gamma', 'quad', 'dblquad', 'logspace', 'allclose', 'len', 'sqrt', 'sum', 'zip', 'enumerate', 'list',
                    'index', 'concatenate', 'array'):
            if last in ('sum', 'sqrt', 'array', 'list', 'concatenate') and args:
                return args[0]
            return 0
        if last in ('trapz', 'trapezoid', 'squeeze', 'Spectrum', 'append'):
            return args[0] if args else None
        if last in ('demo_sel_func', 'demo_sel_extrap_func', 'func_ex', 'popn_func_ex'):
            return 0        # model spectra are computed for theta = 1
        if last == 'make_extrap_func':
            return None
        return None
    params = positional_params(fn)
    seeds = {p: 0 for p in params}
    seeds['theta'] = 1
    seeds.pop('self', None)
    an, exits = run_tags(fn, seeds=seeds, call_rule=call_rule, attr_rule=attr_rule, binop_rule=binop_rule, analysis_class=DegAnalysis, default=None)
    rel = m.rel
    q = fn._qualname
    for (e, l, r) in bad_sums:
        rep.ob('R-DEG(theta)', '%s %s' % (label, ast.unparse(e)[:40]), False, '`%s` adds a term of theta-degree %s to a term of degree %s' % (ast.unparse(e)[:70], l, r), rel, e.lineno,
               what='sum of terms with different theta degree')
    rets = an.returns
    for (st, t, s) in rets:
        okr = t == 1
        if isinstance(st.value, ast.Call) and _last(dotted(st.value.func)) in method_degrees:
            okr = t == 1
        rep.ob('R-DEG(theta)', '%s return' % label, okr, 'returned value %s has theta-degree %s' % (ast.unparse(st.value)[:50], t), rel, st.lineno, what='result is homogeneous of degree 1 in theta')
    # stores into the theta-free caches
    for n in own_nodes(fn):
        if isinstance(n, ast.Assign) and isinstance(n.targets[0], ast.Attribute) and n.targets[0].attr in cacheattrs and isinstance(n.targets[0].value, ast.Name) and n.targets[0].value.id == 'self':
            stores.append((fn, n))
    return an


def check_theta(rep, prog):
    m1, m2, mv = prog.mod(C1), prog.mod(C2), prog.mod(VO)
    meth = {}
    for mm, cls in ((m1, 'Cache1D'), (m2, 'Cache2D')):
        for q, fn in mm.funcs.items():
            if q.startswith(cls + '.integrate'):
                meth[fn.name] = positional_params(fn)[1:]
    stores = []
    todo = [(m1, 'Cache1D.integrate'), (m1, 'Cache1D.integrate_point_pos'), (m2, 'Cache2D.integrate'), (m2, 'Cache2D.integrate_point_pos'),
            (m2, 'Cache2D.integrate_symmetric_point_pos'), (m2, 'mixture'), (m2, 'mixture_symmetric_point_pos'), (m2, 'mixture_point_pos'), (mv, 'Vourlaki_mixture')]
    for mm, q in todo:
        fn = prog.func(mm.name, q)
        rep.saw_function(mm.rel + ':' + q)
        generic.rule_name(rep, prog, mm, fn)
        generic.rule_def(rep, mm, fn)
        an = deg_rules(rep, prog, mm, fn, meth, stores, q)
        # stores of a theta-scaled value into the cache: evaluate the stored expression's degree at that point
    # explicit check of every store into self.spectra / self.neu_spec in the integrate functions
    for fn, n in stores:
        mm = fn._module
        # re-run with an observer: cheap approach -- evaluate degree of names used in the stored value by a second pass
        def attr_rule(an, e, s):
            if e.attr in ('spectra', 'neu_spec', 'gammas', 'neg_gammas'):
                return 0
            if e.attr == 'data':
                return an.ev(e.value, s)
            return NotImplemented

        captured = []

        class Obs(DegAnalysis):
            def assign(self, target, value, s, st):
                if st is n and target is n.targets[0]:
                    captured.append(self.ev(n.value, s))
                return super().assign(target, value, s, st)

        def call_rule(an, e, args, kws, s):
            last = _last(dotted(e.func) or '')
            if last in ('demo_sel_func', 'demo_sel_extrap_func', 'func_ex'):
                return 0
            if last in ('append', 'array', 'Spectrum', 'squeeze'):
                t = None
                for a in args:
                    t = an.jt(t, a)
                return t
            return None

        def binop_rule(an, e, l, r, s):
            if isinstance(e.op, ast.Mult) and isinstance(l, int) and isinstance(r, int):
                return l + r
            return NotImplemented
        seeds = {p: 0 for p in positional_params(fn)}
        seeds['theta'] = 1
        run_tags(fn, seeds=seeds, call_rule=call_rule, attr_rule=attr_rule, binop_rule=binop_rule, analysis_class=Obs, default=None)
        deg = None
        for c in captured:
            deg = c if deg is None else (deg if deg == c else 'mixed')
        rep.ob('R-DEG(theta)', '%s store %s' % (fn._qualname, ast.unparse(n.targets[0])), deg in (0, None), '`%s` stores a value of theta-degree %s into the theta-free cache' % (ast.unparse(n)[:80], deg),
               mm.rel, n.lineno, what='only theta-free spectra are stored in the cache')
    rep.floor('R-DEG(theta)', 9)


def check_weights(rep, prog):
    m2 = prog.mod(C2)
    fn = prog.func(C2, 'Cache2D.integrate_point_pos')
    sing = single_assignments(fn)
    try:
        T = Translator()
        tot = Rat.const(0)
        for k in ('p_pos_pos', 'p_pos_neg', 'p_neg_pos', 'p_neg_neg'):
            tot = tot + T.tr(sing[k])
        ok = tot.equals(Rat.const(1))
        det = 'sum of the quadrant weights = %s' % tot.canon()
    except (KeyError, AlgebraError) as e:
        ok, det = False, 'cannot normalise: %s' % e
    rep.ob('R-ALG', 'Cache2D.integrate_point_pos quadrant weights', ok, det, m2.rel, fn.lineno, what='p++ + p+- + p-+ + p-- == 1 for all ppos1, ppos2, rho')
    fsv = sing.get('fs')
    okp = fsv is not None and ast.unparse(fsv).replace('\n', '') == 'p_pos_pos * pos_pos + p_pos_neg * pos_neg + p_neg_pos * neg_pos + p_neg_neg * neg_neg'
    rep.ob('R-IDX', 'Cache2D.integrate_point_pos pairing', okp, ast.unparse(fsv)[:120] if fsv is not None else '', m2.rel, fn.lineno, what='each quadrant weight multiplies its own quadrant spectrum')
    # quadrant spectra: pos_neg uses gammapos1 on axis 0 and marginal weights over axis 0 ...
    t = ast.unparse(fn)
    okq = 'pos_neg_spectra = np.squeeze(self.spectra[self.gammas == gammapos1, :Nneg])' in t and 'neg_pos_spectra = np.squeeze(self.spectra[:Nneg, self.gammas == gammapos2])' in t and \
        'pos_neg_weights = np.trapz(weights, self.neg_gammas, axis=0)' in t and 'neg_pos_weights = np.trapz(weights, self.neg_gammas, axis=1)' in t and \
        'pos_pos = self.spectra[self.gammas == gammapos1, self.gammas == gammapos2][0]' in t and 'neg_neg = self.integrate(biv_params, ns, biv_seldist, 1, pts)' in t
    if not okq:
        # the same facts read off the fully written-out expressions (temporaries, aliases of self.neg_gammas and named masks inlined)
        from sa.srcmodel import clone as _clone

        def written_out(name):
            e = sing.get(name)
            if e is None:
                return None
            for _ in range(8):
                e2 = inline(_clone(e), {k_: v_ for k_, v_ in sing.items() if k_ != name})
                if ast.unparse(e2) == ast.unparse(e):
                    break
                e = e2
            return ast.unparse(e).replace(' ', '').replace('numpy.', 'np.')
        pn, np_, pp, nn = written_out('pos_neg'), written_out('neg_pos'), written_out('pos_pos'), written_out('neg_neg')
        if all(x is not None for x in (pn, np_, pp, nn)):
            okq = 'self.spectra[self.gammas==gammapos1,:' in pn and 'gammapos2' not in pn and 'axis=0)[:,np.newaxis,np.newaxis]*' in pn and pn.endswith(',self.neg_gammas,axis=0)') and \
                re.search(r'self\.spectra\[:[^,\]]+,self\.gammas==gammapos2\]', np_) is not None and 'gammapos1' not in np_ and 'axis=1)[:,np.newaxis,np.newaxis]*' in np_ and np_.endswith(',self.neg_gammas,axis=0)') and \
                pp == 'self.spectra[self.gammas==gammapos1,self.gammas==gammapos2][0]' and re.fullmatch(r'self\.integrate\((biv_params|params\[:-4\]),ns,biv_seldist,1,pts\)', nn) is not None
    rep.ob('R-IDX', 'Cache2D.integrate_point_pos quadrants', okq, 'pos/neg quadrants take the point-mass row/column of their own population and the marginal of the other', m2.rel, fn.lineno,
           what='positive selection in population k uses gammapos_k on axis k; the other axis is integrated with the marginal weights')
    un = [n for n in own_nodes(fn) if isinstance(n, ast.Assign) and isinstance(n.targets[0], ast.Tuple) and ast.unparse(n.value) == 'params[-4:]']
    oku = bool(un) and [e.id for e in un[0].targets[0].elts] == ['ppos1', 'gammapos1', 'ppos2', 'gammapos2']
    rep.ob('R-IDX', 'Cache2D.integrate_point_pos parameters', oku, 'params[-4:] = (ppos1, gammapos1, ppos2, gammapos2)', m2.rel, fn.lineno, what='documented parameter layout')
    sp = prog.func(C2, 'Cache2D.integrate_symmetric_point_pos')
    t = ast.unparse(sp)
    oks = 'rho = seldist_params[-1]' in t and 'params = np.concatenate((seldist_params, [ppos, gammapos, ppos, gammapos]))' in t and 'rho=rho' in t
    rep.ob('R-IDX', 'Cache2D.integrate_symmetric_point_pos', oks, 'same point mass in both populations; rho taken from the pdf parameters', m2.rel, sp.lineno, what='symmetric wrapper duplicates (ppos, gammapos)')
    for q in ('mixture', 'mixture_symmetric_point_pos', 'mixture_point_pos'):
        f = prog.func(C2, q)
        ret = [n for n in own_nodes(f) if isinstance(n, ast.Return)][-1]
        try:
            r = Translator().tr(ret.value)
            w = r.subs({'fs1': Rat.const(1), 'fs2': Rat.const(1)})
            ok = w.equals(Rat.const(1)) and r.subs({'fs1': Rat.const(0), 'fs2': Rat.const(1)}).equals(Rat.atom('p2d'))
        except AlgebraError:
            ok = False
        rep.ob('R-ALG', '%s weights' % q, ok, ast.unparse(ret.value), m2.rel, ret.lineno, what='(1-p2d)*fs1 + p2d*fs2')
    # the component calls of the mixtures: s1 is documented as a Cache1D, s2 as a Cache2D; every call of one of their methods must
    # bind to that method's signature, and a literal None may not land in a parameter the method does arithmetic with
    def arithmetic_use(callee, pname):
        tested = any(isinstance(n, ast.Compare) and isinstance(n.ops[0], (ast.Is, ast.IsNot)) and ast.unparse(n.left) == pname for n in own_nodes(callee))
        if tested:
            return None
        for n in own_nodes(callee):
            if isinstance(n, ast.BinOp) and any(isinstance(x, ast.Name) and x.id == pname for x in (n.left, n.right)):
                return ast.unparse(n)[:50]
            if isinstance(n, ast.UnaryOp) and isinstance(n.op, ast.USub) and isinstance(n.operand, ast.Name) and n.operand.id == pname:
                return ast.unparse(n)[:50]
        return None
    n_comp = 0
    for mod_, q in ((C2, 'mixture'), (C2, 'mixture_symmetric_point_pos'), (C2, 'mixture_point_pos'), (VO, 'Vourlaki_mixture')):
        f = prog.func(mod_, q)
        frel = prog.mod(mod_).rel
        for c in own_nodes(f):
            if not (isinstance(c, ast.Call) and isinstance(c.func, ast.Attribute) and isinstance(c.func.value, ast.Name) and c.func.value.id in ('s1', 's2')):
                continue
            cls_mod, cls = (C1, 'Cache1D') if c.func.value.id == 's1' else (C2, 'Cache2D')
            if not prog.has_func(cls_mod, '%s.%s' % (cls, c.func.attr)):
                rep.ob('R-SIG', '%s component %s.%s' % (q, c.func.value.id, c.func.attr), False, '%s has no method %s' % (cls, c.func.attr), frel, c.lineno, what='component call binds to the documented class')
                continue
            callee = prog.func(cls_mod, '%s.%s' % (cls, c.func.attr))
            b, problems = bind_call(callee, c, skip_self=True)
            n_comp += 1
            rep.ob('R-SIG', '%s component %s.%s' % (q, c.func.value.id, c.func.attr), not problems, '; '.join(problems) or 'binds to %s.%s%s' % (cls, c.func.attr, tuple(positional_params(callee)[1:])),
                   frel, c.lineno, what='component call binds to the documented class')
            bad = []
            for pname, val in b.items():
                if isinstance(val, ast.Constant) and val.value is None and val in list(c.args) + [k.value for k in c.keywords]:
                    use = arithmetic_use(callee, pname)
                    if use:
                        bad.append('None is passed as %s, which %s.%s uses in `%s`' % (pname, cls, c.func.attr, use))
            rep.ob('R-ARGS', '%s component %s.%s' % (q, c.func.value.id, c.func.attr), not bad, '; '.join(bad) or 'no None reaches a parameter that is used in arithmetic', frel, c.lineno,
                   what='every argument the component computes with is supplied')
    if n_comp < 8:
        raise AnalysisError('fewer component calls in the mixture functions than the 8 confirmed by reading (%d)' % n_comp)
    # layout of the parameter vectors handed to the point-mass integrators: the callee strips a tail of known length and roles
    # (ppos, gammapos pairs; the symmetric wrapper also reads the correlation coefficient as the last pdf parameter), so the literal
    # tail the mixture appends to the shared pdf parameters must have exactly that length and those roles
    def norm_role(nm):
        return nm.replace('_', '')

    def tail_spec(cls, meth, call):
        if (cls, meth) == ('Cache1D', 'integrate_point_pos'):
            kw = {k.arg: k.value for k in call.keywords}
            npos = kw.get('Npos')
            npos = npos.value if isinstance(npos, ast.Constant) else 1
            return ['ppos', 'gammapos'] * npos, False
        callee = prog.func(C1 if cls == 'Cache1D' else C2, '%s.%s' % (cls, meth))
        tail, head, head_last = None, None, False
        for n in own_nodes(callee):
            if isinstance(n, ast.Assign) and isinstance(n.value, ast.Subscript) and ast.unparse(n.value.value) == 'params' and isinstance(n.value.slice, ast.Slice):
                sl = n.value.slice
                if sl.lower is not None and sl.upper is None and isinstance(n.targets[0], ast.Tuple) and ast.unparse(sl.lower) == '-%d' % len(n.targets[0].elts):
                    tail = [norm_role(ast.unparse(e)) for e in n.targets[0].elts]
                if sl.lower is None and sl.upper is not None and isinstance(n.targets[0], ast.Name):
                    head = n.targets[0].id
        if head is not None:
            head_last = any(isinstance(n, ast.Assign) and ast.unparse(n.value) == '%s[-1]' % head and ast.unparse(n.targets[0]) == 'rho' for n in own_nodes(callee))
        return tail, head_last
    n_layout = 0
    for mod_, q in ((C2, 'mixture_symmetric_point_pos'), (C2, 'mixture_point_pos')):
        f = prog.func(mod_, q)
        frel = prog.mod(mod_).rel
        sing_ = {n.targets[0].id: n.value for n in own_nodes(f) if isinstance(n, ast.Assign) and len(n.targets) == 1 and isinstance(n.targets[0], ast.Name)}
        for c in own_nodes(f):
            if not (isinstance(c, ast.Call) and isinstance(c.func, ast.Attribute) and isinstance(c.func.value, ast.Name) and c.func.value.id in ('s1', 's2') and 'point_pos' in c.func.attr and c.args):
                continue
            cls = 'Cache1D' if c.func.value.id == 's1' else 'Cache2D'
            vec = c.args[0]
            if isinstance(vec, ast.Name) and vec.id in sing_:
                vec = sing_[vec.id]
            lit = vec.right if isinstance(vec, ast.BinOp) and isinstance(vec.op, ast.Add) and isinstance(vec.right, ast.List) else None
            spec, head_last = tail_spec(cls, c.func.attr, c)
            if lit is None or spec is None:
                raise AnalysisError('%s: the parameter vector of %s.%s is not of the form list(pdf_params) + [tail]' % (q, c.func.value.id, c.func.attr))
            names = [norm_role(ast.unparse(e)) for e in lit.elts]
            k = len(spec)
            tail_ok = len(names) >= k and [re.sub(r'\d+$', '', x) for x in names[len(names) - k:]] == [re.sub(r'\d+$', '', x) for x in spec] and \
                (len(set(spec)) == len(spec)) == (len(set(names[len(names) - k:])) == len(names[len(names) - k:]) or len(set(spec)) != len(spec))
            lead = names[:len(names) - k]
            lead_ok = lead == ['rho'] if (head_last or cls == 'Cache2D') else lead == []
            n_layout += 1
            rep.ob('R-ARGS', '%s vector for %s.%s' % (q, c.func.value.id, c.func.attr), tail_ok and lead_ok,
                   'appends [%s]; %s.%s strips a tail of %d (%s)%s' % (', '.join(ast.unparse(e) for e in lit.elts), cls, c.func.attr, k, ', '.join(spec),
                                                                     ' and reads the last remaining entry as rho' if head_last else ''), frel, c.lineno,
                   what='the tail appended to the shared pdf parameters has the length and roles the integrator strips')
    if n_layout < 4:
        raise AnalysisError('fewer point-mass component calls than the 4 confirmed by reading (%d)' % n_layout)
    mv = prog.mod(VO)
    vf = prog.func(VO, 'Vourlaki_mixture')
    fsn = [n for n in own_nodes(vf) if isinstance(n, ast.Assign) and ast.unparse(n.targets[0]) == 'fs']
    try:
        r = Translator().tr(fsn[0].value)
        w = r.subs({k: Rat.const(1) for k in ('m2', 'm3', 'm4', 'm5', 'm6', 'm7')})
        ok = w.equals(Rat.const(1))
        det = 'sum of the six weights = %s' % w.canon()
    except (AlgebraError, IndexError) as e:
        ok, det = False, str(e)
    rep.ob('R-ALG', 'Vourlaki_mixture weights', ok, det, mv.rel, vf.lineno, what='the six component weights sum to one')
    c1 = prog.func(C1, 'Cache1D.integrate_point_pos')
    t = ast.unparse(c1)
    okw = 'result = (1 - np.sum(ppos_l)) * pdf_fs' in t and 'ppos_l, gammapos_l = (params[-2 * Npos::2], params[-2 * Npos + 1::2])' in t and 'for ppos, gammapos in zip(ppos_l, gammapos_l)' in t
    rep.ob('R-ALG', 'Cache1D.integrate_point_pos weights', okw, 'continuous part weighted by 1 - sum(ppos); point masses (ppos_k, gammapos_k) read in pairs', prog.mod(C1).rel, c1.lineno,
           what='(1 - sum ppos) + sum ppos == 1, pairs read as (ppos, gammapos)')
    check_point_lookup(rep, prog, c1)


_EQ_LOOKUPS = (r"list\(self\.gammas\)\.index\((\w+)\)", r"self\.gammas\.tolist\(\)\.index\((\w+)\)", r"(?:np|numpy)\.where\(self\.gammas == (\w+)\)\[0\]\[0\]",
               r"(?:np|numpy)\.flatnonzero\(self\.gammas == (\w+)\)\[0\]", r"(?:np|numpy)\.nonzero\(self\.gammas == (\w+)\)\[0\]\[0\]",
               r"(?:np|numpy)\.argmax\(self\.gammas == (\w+)\)", r"int\((?:np|numpy)\.argmax\(self\.gammas == (\w+)\)\)")
_ORDER_SEARCH = ('searchsorted', 'bisect', 'bisect_left', 'bisect_right', 'digitize')


def check_point_lookup(rep, prog, c1):
    """R-LOOKUP: self.gammas is the negative grid followed by additional_gammas in the user's order (np.concatenate in __init__) and
    by uncached point masses in call order (np.append in integrate_point_pos): it is not sorted, so the row of self.spectra that
    belongs to a point mass must be found by equality with the requested value, never by an order-based search"""
    rel = prog.mod(C1).rel
    cls = [n for n in prog.mod(C1).tree.body if isinstance(n, ast.ClassDef) and n.name == 'Cache1D']
    appended = any(isinstance(n, ast.Assign) and ast.unparse(n.targets[0]) == 'self.gammas' and isinstance(n.value, ast.Call) and
                   ast.unparse(n.value.func).split('.')[-1] in ('append', 'concatenate', 'hstack', 'r_') for c_ in cls for n in ast.walk(c_))
    sing = {}
    for n in own_nodes(c1):
        if isinstance(n, ast.Assign) and len(n.targets) == 1 and isinstance(n.targets[0], ast.Name):
            sing.setdefault(n.targets[0].id, []).append(n.value)
    # the loop variable that carries the requested gamma
    loops = [n for n in own_nodes(c1) if isinstance(n, ast.For) and 'gammapos_l' in ast.unparse(n.iter)]
    gname = None
    if len(loops) == 1 and isinstance(loops[0].target, ast.Tuple) and len(loops[0].target.elts) == 2 and isinstance(loops[0].target.elts[1], ast.Name):
        gname = loops[0].target.elts[1].id
    reads = [n for n in own_nodes(c1) if isinstance(n, ast.Subscript) and ast.unparse(n.value) == 'self.spectra' and isinstance(n.ctx, ast.Load)]
    bad = [ast.unparse(c)[:80] for c in own_nodes(c1) if isinstance(c, ast.Call) and ast.unparse(c.func).split('.')[-1] in _ORDER_SEARCH and 'gammas' in ast.unparse(c)]
    if bad and appended:
        rep.ob('R-LOOKUP', 'Cache1D.integrate_point_pos row of the point mass', False,
               'order-based search `%s` on self.gammas, which is extended in user / call order (concatenate in __init__, append here) and is not sorted: '
               'the spectrum of another selection coefficient is returned' % bad[0], rel, c1.lineno,
               what='the cached spectrum of a point mass is selected by equality with the requested gamma')
        return
    ok, det = False, 'the read of self.spectra for the point mass was not found'
    if gname and len(reads) == 1:
        ix = reads[0].slice
        if isinstance(ix, ast.Name) and len(sing.get(ix.id, [])) == 1:
            ix = sing[ix.id][0]
        t = ast.unparse(ix)
        for rx in _EQ_LOOKUPS:
            mt = re.fullmatch(rx, t)
            if mt:
                ok = mt.group(1) == gname
                det = 'row %s' % t + ('' if ok else ': looked up with `%s`, not the requested gamma `%s`' % (mt.group(1), gname))
                break
        else:
            if re.fullmatch(r"self\.gammas == (\w+)", t):
                ok = re.fullmatch(r"self\.gammas == (\w+)", t).group(1) == gname
                det = 'row mask %s' % t
            else:
                det = 'lookup `%s` not recognised' % t[:80]
    rep.ob('R-LOOKUP', 'Cache1D.integrate_point_pos row of the point mass', ok, det, rel, c1.lineno,
           what='the cached spectrum of a point mass is selected by equality with the requested gamma')


def exterior_terms(prog, symmetric):
    """Cache2D.integrate(exterior_int=True) executed abstractly for a symmetric / asymmetric pdf: the edge terms
    {(i1, i2) with 'full' for the integrated axis: (which selection coefficient the weight integrates over, 'low' | 'high')} and the
    corner terms {(i1, i2): (range of gamma1, range of gamma2)}; None where a weight is not recognised"""
    from sa import miniexec as mx
    from sa import alpha
    m = prog.mod(C2)
    fn = prog.func(C2, 'Cache2D.integrate')
    known = alpha.load_table().get('__params__', {}).get(m.rel)
    known = set(known) if known is not None else None

    def hook(nm, args, kw):
        if nm in ('np.allclose', 'numpy.allclose'):
            return symmetric
        return NotImplemented
    it = mx.Interp(prog, m, call_hook=hook, known_functions=known, symbolic_loops=True)
    out = {'edges': {}, 'corners': {}, 'errors': []}
    try:
        paths = it.run(fn, {'self': mx.Sym('self', truth=True), 'params': mx.Sym('params'), 'ns': mx.Sym('ns'), 'sel_dist': mx.Sym('sel_dist', truth=True), 'theta': mx.Sym('theta'),
                            'pts': mx.Sym('pts'), 'exterior_int': True})
    except mx.Undecidable as e:
        raise AnalysisError('Cache2D.integrate is not recognised: %s' % e)
    if len(paths) != 1 or paths[0][0][0] != 'return':
        raise AnalysisError('Cache2D.integrate is not recognised: %d paths' % len(paths))
    outcome, events, dec = paths[0]
    a = mx.call_of(outcome[1], 'Spectrum')
    if not a or not a[0]:
        raise AnalysisError('Cache2D.integrate does not return a Spectrum')
    prod = mx.factors(a[0][0], '*')
    total = [f for f in prod if not (isinstance(f, mx.Sym) and f.text == 'theta')]
    if len(total) != 1 or len(prod) != 2:
        out['errors'].append('the result is not theta times the quadrature')
        return out
    terms = mx.factors(total[0], '+')

    def rng_of(lo, hi):
        lo_t, hi_t = mx.show(lo).replace(' ', ''), mx.show(hi).replace(' ', '')
        if lo_t == '(-self.neg_gammas[0])' and hi_t in ('np.inf', 'numpy.inf', 'inf'):
            return 'low'
        if lo_t == '0' and hi_t == '(-self.neg_gammas[-1])':
            return 'high'
        return None

    def component0(v):
        # W, err = quad(...)  ->  W is component 0 of the call
        if isinstance(v, mx.Sym) and v.struct and v.struct[0] == 'index' and v.struct[2] == 0:
            return v.struct[1]
        return None

    def fill_of(vec):
        # the per-gamma entry of a weight vector: array([w]) built from a list appended to in the loop, or stores vec[ii] = w
        c = mx.call_of(vec, 'array') or mx.call_of(vec, 'asarray')
        if c and c[0] and isinstance(c[0][0], list) and len(c[0][0]) == 1:
            return c[0][0][0]
        st = [e for e in events if e[0] == 'setitem' and len(e) > 4 and e[4] is vec]
        if len(st) == 1 and isinstance(st[0][2], mx.Sym):
            return st[0][3]
        return None

    def quad_class(w):
        q = component0(w)
        c = mx.call_of(q, 'quad') if q is not None else None
        if not c or len(c[0]) < 3:
            return None
        f, lo, hi = c[0][:3]
        rng = rng_of(lo, hi)
        if rng is None:
            return None
        if isinstance(f, mx.Sym) and f.text == 'sel_dist':
            extra = c[1].get('args')
            if isinstance(extra, tuple) and len(extra) == 2 and mx.show(extra[0]) == 'gamma' and 'params' in mx.show(extra[1]):
                return (1, rng)          # integrates the first argument, the second is the grid value
            return None
        if isinstance(f, mx.FuncRef) and f.node is not None and len(f.node.args.args) == 1 and 'args' not in c[1]:
            body = f.node.body[0].value if isinstance(f.node.body[0], ast.Return) else None
            v = f.node.args.args[0].arg
            if isinstance(body, ast.Call) and ast.unparse(body.func) == 'sel_dist' and [ast.unparse(x) for x in body.args] == ['gamma', v, 'params']:
                return (2, rng)
            if isinstance(body, ast.Call) and ast.unparse(body.func) == 'sel_dist' and [ast.unparse(x) for x in body.args] == [v, 'gamma', 'params']:
                return (1, rng)
        return None

    def dbl_class(w):
        q = component0(w)
        c = mx.call_of(q, 'dblquad') if q is not None else None
        if not c or len(c[0]) < 5:
            return None
        f, a_, b_, g_, h_ = c[0][:5]
        if not (isinstance(f, mx.Sym) and f.text == 'sel_dist'):
            return None
        try:
            glo = it.apply(g_, [mx.Sym('x')], {}) if isinstance(g_, mx.FuncRef) else g_
            ghi = it.apply(h_, [mx.Sym('x')], {}) if isinstance(h_, mx.FuncRef) else h_
        except (mx.Undecidable, mx.Raised):
            return None
        # dblquad(func, a, b, gfun, hfun) integrates func(y, x): x in [a, b] is the SECOND argument (gamma2), y in [g, h] the first
        r2, r1 = rng_of(a_, b_), rng_of(glo, ghi)
        if r1 is None or r2 is None:
            return None
        return (r1, r2)
    it.path = mx.Path([])
    for t in terms[1:]:
        c = mx.call_of(t, 'trapz') or mx.call_of(t, 'trapezoid')
        if c:
            fac = mx.factors(c[0][0], '*') if c[0] else []
            sp = [f for f in fac if isinstance(f, mx.Sym) and f.struct and f.struct[0] == 'index' and mx.show(f.struct[1]).startswith('self.spectra[')]
            ws = [f for f in fac if f not in sp]
            if len(sp) != 1 or len(ws) != 1 or mx.show(c[0][1]) != 'self.neg_gammas' or mx.show(c[1].get('axis', c[0][2] if len(c[0]) > 2 else None)) != '0':
                out['errors'].append('edge term %s' % mx.show(t)[:80])
                continue
            key = sp[0].struct[2] if isinstance(sp[0].struct[2], tuple) else (sp[0].struct[2],)
            key = tuple('full' if mx.is_full_slice(k) else k for k in key)
            w = ws[0]
            vec = w.struct[1] if isinstance(w, mx.Sym) and w.struct and w.struct[0] == 'index' else None
            aligned = vec is not None and isinstance(w.struct[2], tuple) and len(w.struct[2]) == 3 and mx.is_full_slice(w.struct[2][0]) and all(mx.is_newaxis(x) for x in w.struct[2][1:])
            fill = fill_of(vec) if aligned else None
            out['edges'][key] = quad_class(fill) if fill is not None else None
            continue
        fac = mx.factors(t, '*')
        sp = [f for f in fac if isinstance(f, mx.Sym) and f.struct and f.struct[0] == 'index' and mx.show(f.struct[1]).startswith('self.spectra[')]
        ws = [f for f in fac if f not in sp]
        if len(sp) == 1 and len(ws) == 1 and isinstance(sp[0].struct[2], tuple) and all(isinstance(k, int) for k in sp[0].struct[2]):
            out['corners'][tuple(sp[0].struct[2])] = dbl_class(ws[0])
        else:
            out['errors'].append('term %s' % mx.show(t)[:80])
    return out


def check_quadrature(rep, prog):
    m1, m2 = prog.mod(C1), prog.mod(C2)
    f1 = prog.func(C1, 'Cache1D.integrate')
    t = ast.unparse(f1)
    ok = all(x in t for x in ('spectra = self.spectra[:Nneg]', 'weights = sel_dist(-self.neg_gammas, params)', 'weighted_spectra[ii] = w * spectra[ii]',
                              'fs = np.trapz(weighted_spectra, self.neg_gammas, axis=0)', 'smallest_gamma = self.neg_gammas[-1]', 'largest_gamma = self.neg_gammas[0]'))
    rep.ob('R-TPL', 'Cache1D.integrate body', ok, 'trapezoid of pdf(-gamma)*spectrum over the negative gamma grid', m1.rel, f1.lineno, what='1-D quadrature over the cached grid')
    q_ = {ast.unparse(n.targets[0]): n.value for n in own_nodes(f1) if isinstance(n, ast.Assign) and isinstance(n.value, ast.Call) and _last(dotted(n.value.func)) == 'quad'}
    okn = any([ast.unparse(a) for a in v.args[:3]] == ['sel_dist', '0', '-smallest_gamma'] for k, v in q_.items() if 'weight_neu' in k)
    okd = any([ast.unparse(a) for a in v.args[:3]] == ['sel_dist', '-largest_gamma', 'np.inf'] for k, v in q_.items() if 'weight_del' in k)
    okt = 'fs += self.neu_spec * weight_neu' in t and 'fs += spectra[0] * weight_del' in t
    rep.ob('R-TPL', 'Cache1D.integrate tails', okn and okd and okt, 'neutral tail [0, |smallest gamma|] with the neutral spectrum; lethal tail [|largest gamma|, inf) with spectra[0] (grid is ordered from most to least deleterious)',
           m1.rel, f1.lineno, what='tail masses paired with the matching spectra')
    init = prog.func(C1, 'Cache1D.__init__')
    ti = ast.unparse(init)
    okg = 'self.gammas = -np.logspace(np.log10(gamma_bounds[1]), np.log10(gamma_bounds[0]), gamma_pts)' in ti
    rep.ob('R-IDX', 'Cache1D grid order', okg, 'gammas run from -gamma_bounds[1] (index 0) to -gamma_bounds[0] (index -1)', m1.rel, init.lineno, what='index 0 is the most deleterious, index -1 the most nearly neutral')
    init2 = prog.func(C2, 'Cache2D.__init__')
    rep.ob('R-IDX', 'Cache2D grid order', 'self.gammas = -np.logspace(np.log10(gamma_bounds[1]), np.log10(gamma_bounds[0]), gamma_pts)' in ast.unparse(init2), 'same ordering in two dimensions', m2.rel, init2.lineno,
           what='index 0 is the most deleterious, index -1 the most nearly neutral')
    f2 = prog.func(C2, 'Cache2D.integrate')
    rep.saw_function(m2.rel + ':Cache2D.integrate')
    t = ast.unparse(f2)
    okb = all(x in t for x in ('spectra = self.spectra[:Nneg, :Nneg]', 'weights = sel_dist(-self.neg_gammas, -self.neg_gammas, params)', 'weighted_spectra[ii, jj] = w * spectra[ii, jj]',
                               'temp = np.trapz(weighted_spectra, self.neg_gammas, axis=0)', 'fs = np.trapz(temp, self.neg_gammas, axis=0)', 'max_gamma = -self.neg_gammas[-1]', 'min_gamma = -self.neg_gammas[0]'))
    rep.ob('R-TPL', 'Cache2D.integrate body', okb, 'double trapezoid over the negative grid; min_gamma/max_gamma are the largest/smallest magnitudes', m2.rel, f2.lineno, what='2-D quadrature over the cached grid')
    # the exterior terms (four edges, four corners), for asymmetric and for symmetric pdfs: abstract execution of the function (one
    # symbolic iteration of the loop over the grid); each term is read off the value that is returned, so the way the weights are
    # collected (four arrays, a table of lists, one loop over the edges) is immaterial
    ext = {sym: exterior_terms(prog, sym) for sym in (False, True)}
    want_edges = {('full', 0): (2, 'low'), ('full', -1): (2, 'high'), (0, 'full'): (1, 'low'), (-1, 'full'): (1, 'high')}
    bad_w, bad_e, bad_c = [], [], []
    have = None
    for sym, ex in ext.items():
        tagw = 'symmetric pdf' if sym else 'asymmetric pdf'
        for msg in ex['errors']:
            bad_w.append('%s: %s' % (tagw, msg))
        for key, wq in ex['edges'].items():
            w = want_edges.get(key)
            if w is None:
                bad_e.append('%s: unexpected edge slice %s' % (tagw, (key,)))
                continue
            if wq is None:
                bad_w.append('%s: the weight of edge %s is not a quadrature over one selection coefficient' % (tagw, (key,)))
                continue
            var, rng = wq
            # the symmetric shortcut may use the mass over the other coefficient (equal by symmetry)
            if not (rng == w[1] and (var == w[0] or sym)):
                bad_e.append('%s: edge spectra[%s] weighted by the mass of gamma%d in the %s range (expected gamma%d %s)' % (tagw, ', '.join(':' if k == 'full' else str(k) for k in key), var, rng, w[0], w[1]))
        if set(ex['edges']) != set(want_edges) and not ex['errors']:
            bad_e.append('%s: edge terms %s' % (tagw, sorted(map(str, ex['edges']))))
        for (i1, i2), cq in ex['corners'].items():
            if cq is None:
                bad_c.append('%s: the weight of corner (%d, %d) is not a double quadrature' % (tagw, i1, i2))
                continue
            r1, r2 = cq
            e1, e2 = {0: 'low', -1: 'high'}.get(i1), {0: 'low', -1: 'high'}.get(i2)
            if not ((r1, r2) == (e1, e2) or (sym and (r2, r1) == (e1, e2))):
                bad_c.append('%s: corner spectra[%d, %d] weighted by the mass of gamma1 in the %s range, gamma2 in the %s range%s' % (
                    tagw, i1, i2, r1, r2, ' (not the mirrored quadrant either)' if sym else ''))
        hv = {'spectra[%d, %d]' % k for k in ex['corners']}
        have = hv if have is None else (have & hv)
    rep.ob('R-TPL', 'Cache2D.integrate edge weights', not bad_w, '; '.join(bad_w[:3]) if bad_w else 'every edge weight is quad over one selection coefficient with the other fixed at the grid value, over [min_gamma, inf) or [0, max_gamma]',
           m2.rel, f2.lineno, what='w_1*: integral over gamma1 (first argument) at fixed gamma2; w_2*: integral over gamma2 (second argument) at fixed gamma1; low = [min_gamma, inf), high = [0, max_gamma]')
    rep.ob('R-TPL', 'Cache2D.integrate edge terms', not bad_e and not bad_w, '; '.join(bad_e[:3]) if bad_e else 'spectra[:, 0] <-> gamma2 low, spectra[:, -1] <-> gamma2 high, spectra[0, :] <-> gamma1 low, spectra[-1, :] <-> gamma1 high',
           m2.rel, f2.lineno, what='slice with gamma2 most deleterious (index 0) pairs with the gamma2 weight over [min_gamma, inf) etc. for all four edges')
    rep.ob('R-TPL', 'Cache2D.integrate corner terms', not bad_c and len(have or ()) >= 3, '; '.join(bad_c[:3]) if bad_c else 'corner terms %s, each with the mass of its own quadrant (symmetric pdfs may reuse the mirrored one)' % sorted(have or ()),
           m2.rel, f2.lineno, what='each corner spectrum is paired with the mass of the matching quadrant (index 0 <-> [min_gamma, inf), -1 <-> [0, max_gamma])')
    have = set(have or ())
    need = {'spectra[-1, -1]', 'spectra[0, -1]', 'spectra[-1, 0]', 'spectra[0, 0]'}
    missing = sorted(need - have)
    rep.ob('R-EXH', 'Cache2D.integrate corner masses', not missing, 'corner terms present: %s; missing: %s' % (sorted(have), missing), m2.rel, f2.lineno,
           what='all four corner tail masses (neutral/lethal in each population) are added' if not missing else 'corner tail mass %s is not added' % ', '.join(missing))


def check_schedule(rep, prog):
    for modname, cls, idx_n in ((C1, 'Cache1D', 1), (C2, 'Cache2D', 2)):
        m = prog.mod(modname)
        w = prog.func(modname, cls + '._worker_sfs')
        rep.saw_function(m.rel + ':' + w._qualname)
        generic.rule_def(rep, m, w)
        tr_ = [n for n in ast.walk(w) if isinstance(n, ast.Try)]
        ok = False
        det = 'no try/except in the worker'
        if tr_:
            t = tr_[0]
            h = t.handlers[0] if t.handlers else None
            body_app = [c for c in ast.walk(ast.Module(body=t.body, type_ignores=[])) if isinstance(c, ast.Call) and dotted(c.func) == 'outlist.append']
            h_app = [c for c in ast.walk(ast.Module(body=h.body, type_ignores=[])) if isinstance(c, ast.Call) and dotted(c.func) == 'outlist.append'] if h else []
            ok = h is not None and h.name is not None and len(h_app) == 1 and ast.unparse(h_app[0].args[0]) == h.name and len(body_app) == 1 and isinstance(body_app[0].args[0], ast.Tuple) and \
                len(body_app[0].args[0].elts) == idx_n + 1 and not any(isinstance(x, (ast.Pass, ast.Continue)) for x in h.body)
            idxs = [ast.unparse(e) for e in body_app[0].args[0].elts[:idx_n]] if body_app and isinstance(body_app[0].args[0], ast.Tuple) else []
            item = [n for n in ast.walk(w) if isinstance(n, ast.Assign) and ast.unparse(n.value) == 'item']
            ok = ok and bool(item) and [ast.unparse(e) for e in item[0].targets[0].elts[:idx_n]] == idxs
            det = 'success appends (%s, sfs) with the job\'s own index; failure appends the exception object %s' % (', '.join(idxs), h.name if h else '?')
        rep.ob('R-TPL', '%s._worker_sfs error discipline' % cls, ok, det, m.rel, w.lineno, what='results carry their index; a failing worker poisons the result list instead of dropping the job')
        mp = prog.func(modname, cls + '._multiple_processes')
        coll = [n for n in ast.walk(mp) if isinstance(n, ast.For) and ast.unparse(n.iter) == 'results']
        okc = False
        if coll:
            tg = coll[0].target
            body = ast.unparse(coll[0].body[0])
            if idx_n == 1:
                okc = isinstance(tg, ast.Tuple) and [e.id for e in tg.elts] == ['ii', 'sfs'] and body == 'self.spectra[ii] = sfs'
            else:
                okc = isinstance(tg, ast.Tuple) and [e.id for e in tg.elts] == ['ii', 'jj', 'sfs'] and body == 'self.spectra[ii][jj] = sfs'
        rep.ob('R-TPL', '%s collector' % cls, okc, ast.unparse(coll[0])[:90] if coll else 'no collector loop', m.rel, coll[0].lineno if coll else mp.lineno,
               what='every result is destructured (an exception object cannot be unpacked: it is reported) and stored at its own index, not by arrival order')
        # (by construct, not by spelling: a loop over the pool that joins its element; a loop that runs once per worker and puts None)
        okj = sentinel = False
        for lp_ in [n for n in ast.walk(mp) if isinstance(n, ast.For)]:
            it_txt = ast.unparse(lp_.iter).replace(' ', '')
            if it_txt == 'pool' and isinstance(lp_.target, ast.Name):
                okj = okj or any(isinstance(c_, ast.Call) and isinstance(c_.func, ast.Attribute) and c_.func.attr == 'join' and isinstance(c_.func.value, ast.Name) and c_.func.value.id == lp_.target.id
                                 for b_ in lp_.body for c_ in ast.walk(b_))
            if it_txt in ('range(cpus+gpus)', 'range(gpus+cpus)', 'pool', 'range(len(pool))'):
                sentinel = sentinel or any(isinstance(c_, ast.Call) and dotted(c_.func) == 'work.put' and len(c_.args) == 1 and isinstance(c_.args[0], ast.Constant) and c_.args[0].value is None
                                           for b_ in lp_.body for c_ in ast.walk(b_))
        rep.ob('R-TPL', '%s shutdown' % cls, okj and sentinel, 'one None sentinel per worker; all workers joined before collecting', m.rel, mp.lineno, what='all workers finish before results are read')
    # split-job predicate identical in both builders
    m2 = prog.mod(C2)
    sp = prog.func(C2, 'Cache2D._single_process')
    mp = prog.func(C2, 'Cache2D._multiple_processes')

    def sched(fn):
        out = []
        for n in ast.walk(fn):
            if isinstance(n, ast.For) and ast.unparse(n.iter) == 'enumerate(self.gammas)' and isinstance(n.body[0], ast.For):
                inner = n.body[0]
                iff = [x for x in inner.body if isinstance(x, ast.If)]
                aug = [x for x in inner.body if isinstance(x, ast.AugAssign)]
                out.append((ast.unparse(n.target), ast.unparse(inner.target), ast.unparse(inner.iter), ast.unparse(iff[0].test) if iff else None, ast.unparse(aug[0]) if aug else None,
                            bool(aug) and inner.body.index(aug[0]) > inner.body.index(iff[0]) if iff and aug else False))
        return out
    def canon_names(rec):
        # the two builders may call their loop variables differently: names are replaced by their order of first appearance
        import re as _re
        order = []
        def sub(m_):
            w = m_.group(0)
            if w in ('enumerate', 'self', 'gammas', 'split_jobs', 'this_job_id', 'True', 'False', 'None'):
                return w
            if w not in order:
                order.append(w)
            return 'v%d' % order.index(w)
        return tuple(_re.sub(r'[A-Za-z_]\w*', sub, x) if isinstance(x, str) else x for x in rec)
    s1, s2 = sched(sp), sched(mp)
    ref = canon_names(('(ii, gamma)', '(jj, gamma2)', 'enumerate(self.gammas)', 'this_eval % split_jobs == this_job_id', 'this_eval += 1', True))
    ok = len(s1) == 1 and len(s2) == 1 and canon_names(s1[0]) == canon_names(s2[0]) == ref
    rep.ob('R-TPL', 'Cache2D job predicate', ok, 'single: %s | multi: %s' % (s1, s2), m2.rel, sp.lineno, what='same enumeration and predicate this_eval %% split_jobs == this_job_id with an unconditional counter in both builders')
    from sa.pattern import has as _has
    for fn, what in ((sp, 'self.spectra[ii][jj] = func_ex(tuple(self.params) + (gamma, gamma2), self.ns, self.pts)'), (mp, 'work.put((ii, jj, gamma, gamma2))')):
        pat = 'for ii, gamma in enumerate(self.gammas):\n    for jj, gamma2 in enumerate(self.gammas):\n        if this_eval % split_jobs == this_job_id:\n            ' + what
        rep.ob('R-IDX', 'Cache2D job payload %s' % fn.name, _has(ast.unparse(fn), pat), what, m2.rel, fn.lineno, what='job (ii, jj) evaluates (gamma_ii, gamma_jj)')
    mg = prog.func(C2, 'Cache2D.merge')
    # merge executed abstractly on small scenarios (2 x 2 grid of entries, two or three partial caches): complete and disjoint pieces
    # merge to the union; a missing entry raises; an entry present twice raises unless both copies are equal; the inputs keep their
    # entries (the first cache is copied, not updated in place)
    from sa import miniexec as mx
    from sa import alpha as _alpha
    known_ = _alpha.load_table().get('__params__', {}).get(m2.rel)
    known_ = set(known_) if known_ is not None else None

    def run_merge(grids):
        caches = [mx.Sym('cache%d' % k_, truth=True, attrs={'spectra': [list(r_) for r_ in g_]}) for k_, g_ in enumerate(grids)]

        def hook(nm, args, kwargs):
            if nm == 'copy.deepcopy' and args and isinstance(args[0], mx.Sym) and 'spectra' in args[0].attrs:
                return mx.Sym(args[0].text + "'", truth=True, attrs={'spectra': [list(r_) for r_ in args[0].attrs['spectra']]})
            if nm in ('np.all', 'numpy.all') and args and isinstance(args[0], mx.Sym) and args[0].text.startswith('(') and ' == ' in args[0].text:
                a_, b_ = args[0].text[1:-1].split(' == ', 1)
                return a_ == b_
            if nm in ('np.array_equal', 'numpy.array_equal') and len(args) == 2:
                return mx.show(args[0]) == mx.show(args[1])
            if nm in ('np.array', 'numpy.array', 'np.asarray', 'numpy.asarray') and args and isinstance(args[0], list):
                return args[0]
            return NotImplemented
        it = mx.Interp(prog, m2, call_hook=hook, known_functions=known_)
        snapshot = [[list(r_) for r_ in c_.attrs['spectra']] for c_ in caches]
        paths = it.run(mg, {'caches': caches})
        # run() copies symbols per path: the copies are what the function saw; compare the originals' entries after the run
        return paths, caches, snapshot
    X = lambda t_: mx.Sym(t_, truth=True)
    N = None
    scenarios = [
        ('complete, disjoint', [[[X('a'), N], [N, X('d')]], [[N, X('b')], [X('c'), N]]], 'ok', [['a', 'b'], ['c', 'd']]),
        ('three pieces', [[[X('a'), N], [N, N]], [[N, X('b')], [N, N]], [[N, N], [X('c'), X('d')]]], 'ok', [['a', 'b'], ['c', 'd']]),
        ('missing entry', [[[X('a'), N], [N, X('d')]], [[N, X('b')], [N, N]]], 'raise', None),
        ('missing entry in the first row', [[[N, N], [X('c'), X('d')]], [[N, X('b')], [N, N]]], 'raise', None),
        ('conflicting copies', [[[X('a'), X('b')], [X('c'), X('d')]], [[X('e'), N], [N, N]]], 'raise', None),
        ('equal copies', [[[X('a'), X('b')], [X('c'), X('d')]], [[X('a'), N], [N, X('d')]]], 'ok', [['a', 'b'], ['c', 'd']]),
        ('single complete cache', [[[X('a'), X('b')], [X('c'), X('d')]]], 'ok', [['a', 'b'], ['c', 'd']]),
        ('conflict between two later pieces', [[[N, X('b')], [X('c'), X('d')]], [[X('e'), N], [N, N]], [[X('f'), N], [N, N]]], 'raise', None),
        ('equal copies in two later pieces', [[[N, X('b')], [X('c'), X('d')]], [[X('a'), N], [N, N]], [[X('a'), N], [N, N]]], 'ok', [['a', 'b'], ['c', 'd']]),
        ('conflict in the last entry', [[[X('a'), X('b')], [X('c'), N]], [[N, N], [N, X('d')]], [[N, N], [N, X('g')]]], 'raise', None),
    ]
    badm = []
    try:
        for label, grids, want, union in scenarios:
            paths, caches, snap = run_merge(grids)
            for outcome, events, dec in paths:
                if want == 'raise':
                    if outcome[0] != 'raise':
                        badm.append('%s: accepted' % label)
                    continue
                if outcome[0] != 'return':
                    badm.append('%s: refused (%s)' % (label, outcome[1]))
                    continue
                res = outcome[1]
                sp_ = res.attrs.get('spectra') if isinstance(res, mx.Sym) else None
                got = [[mx.show(x) for x in r_] for r_ in sp_] if isinstance(sp_, list) else None
                if got != union:
                    badm.append('%s: merged entries %s' % (label, got))
                if isinstance(res, mx.Sym) and any(res is c_ for c_ in caches):
                    badm.append('%s: the first input is returned, not a copy' % label)
    except mx.Undecidable as e:
        raise AnalysisError('Cache2D.merge is not recognised: %s' % e)
    okm, okmiss = not badm, True
    rep.ob('R-DOM', 'Cache2D.merge', okm and okmiss, '; '.join(badm[:3]) or 'conflicting entries raise; missing entries raise; complete disjoint pieces merge to their union (10 scenarios executed abstractly)', m2.rel, mg.lineno,
           what='conflicts and missing jobs are reported, inputs are not modified')



def c_sym_paths(cf, env0, table):
    """symbolic execution of a small C function (assignments, if on comparisons of symbolic values or on flags holding such
    comparisons, for-loops with constant bounds): list of (path conditions [(text, truth)], returned Rat)"""
    out = []

    def tr(e, env):
        def ih(T, x):
            if isinstance(x.value, ast.Name) and x.value.id == 'p' and table:
                i = T.tr(x.slice)
                if i.is_const():
                    return Rat.const(Fraction(repr(table[int(i.const_value())])))
            return None
        return Translator(dict((k, v) for k, v in env.items() if isinstance(v, Rat)), index_hook=ih).tr(e)

    def cond_of(e, env, conds):
        """-> (text, truth or None)"""
        if isinstance(e, ast.Name) and isinstance(env.get(e.id), tuple) and env[e.id][0] == 'cond':
            text = env[e.id][1]
        elif isinstance(e, ast.Compare):
            # comparisons are about the ORIGINAL argument only when z has not been rebound; otherwise refuse
            l = tr(e.left, env)
            if not l.equals(Rat.atom('z')):
                raise AnalysisError('regime test on a modified value: %s' % unparse(e))
            text = unparse(e)
        else:
            raise AnalysisError('unsupported condition %s' % unparse(e))
        for t, v in conds:
            if t == text:
                return text, v
        return text, None

    def run(stmts, env, conds):
        env = dict(env)
        for i, st in enumerate(stmts):
            if isinstance(st, CDecl):
                if st.init is not None and not st.array:
                    env[st.name] = tr(st.init, env)
                continue
            if isinstance(st, CAssign):
                name = unparse(st.target)
                if isinstance(st.value, ast.Compare) and st.op == '=':
                    l = tr(st.value.left, env)
                    if not l.equals(Rat.atom('z')):
                        raise AnalysisError('flag computed from a modified value')
                    env[name] = ('cond', unparse(st.value))
                    continue
                v = tr(st.value, env)
                if st.op == '=':
                    env[name] = v
                else:
                    cur = env.get(name)
                    if not isinstance(cur, Rat):
                        raise AnalysisError('update of an unset variable %s' % name)
                    env[name] = {'+=': cur + v, '-=': cur - v, '*=': cur * v, '/=': cur / v}[st.op]
                continue
            if isinstance(st, CFor):
                var = unparse(st.init.target)
                lo = tr(st.init.value, env)
                hi = tr(st.cond.comparators[0], env)
                if not (lo.is_const() and hi.is_const() and isinstance(st.cond.ops[0], ast.Lt)):
                    raise AnalysisError('loop bounds are not constants')
                for k in range(int(lo.const_value()), int(hi.const_value())):
                    env[var] = Rat.const(k)
                    sub = run_block_nofork(st.body, env)
                    env = sub
                continue
            if isinstance(st, CIf):
                text, truth = cond_of(st.cond, env, conds)
                rest = stmts[i + 1:]
                for tv in ((truth,) if truth is not None else (True, False)):
                    run((st.body if tv else st.orelse) + rest, env, conds + [(text, tv)] if truth is None else conds)
                return
            if isinstance(st, CReturn):
                out.append((conds, tr(st.value, env)))
                return
            if isinstance(st, CExpr):
                continue
            raise AnalysisError('unsupported statement')
        out.append((conds, None))

    def run_block_nofork(stmts, env):
        env = dict(env)
        for st in stmts:
            if isinstance(st, CAssign):
                name = unparse(st.target)
                v = tr(st.value, env)
                if st.op == '=':
                    env[name] = v
                else:
                    cur = env[name]
                    env[name] = {'+=': cur + v, '-=': cur - v, '*=': cur * v, '/=': cur / v}[st.op]
            else:
                raise AnalysisError('unsupported statement in loop body')
        return env
    run(list(cf.body), dict(env0), [])
    return out


PI_TXT = '3.141592653589793'


def density_reference(name, k, X, Y):
    """value of output cell (x, y) for a parameter vector of length k"""
    P = lambda i_: Rat.atom('params[%d]' % i_)
    if name == 'biv_lognormal':
        lay = {3: (P(0), P(0), P(1), P(1), P(2)), 5: (P(0), P(1), P(2), P(3), P(4))}[k]
        env = dict(zip(('mu1', 'mu2', 'sigma1', 'sigma2', 'rho'), lay), X=X, Y=Y)
        env['dx'] = parse_expr('(log(X) - mu1)/sigma1', env)
        env['dy'] = parse_expr('(log(Y) - mu2)/sigma2', env)
        env['q'] = parse_expr('(dx*dx - 2*rho*dx*dy + dy*dy)/(1 - rho*rho)', env)
        return parse_expr('exp(-q/2)/(2*%s*sigma1*sigma2*sqrt(1. - rho*rho)*X*Y)' % PI_TXT, env)
    lay = {2: (P(0), P(0), P(1), P(1)), 3: (P(0), P(0), P(1), P(1)), 4: (P(0), P(1), P(2), P(3)), 5: (P(0), P(1), P(2), P(3))}[k]
    env = dict(zip(('a1', 'a2', 'b1', 'b2'), lay), X=X, Y=Y)
    return parse_expr('(pow(X, a1 - 1.)*exp(-X/b1)/(pow(b1, a1)*gamma_func(a1))) * (pow(Y, a2 - 1.)*exp(-Y/b2)/(pow(b2, a2)*gamma_func(a2)))', env)


def c_density(rep, cf, rel, name, counts):
    """content of every cell of `output` when the compiled density returns (sa.csym), for each supported length of the parameter
    vector: the closed form with that length's parameter layout, at row-major position i*m + j.  Auxiliary arrays, hoisted
    invariants and pointer walks do not matter."""
    from sa import csym
    layout_ok, layout_det = True, []
    idx_ok, idx_det = True, []
    for k in counts:
        try:
            paths = csym.run(cf, {'Nparams': Rat.const(k)})
            if len(paths) != 1:
                raise AlgebraError('%d paths' % len(paths))
            p_ = paths[0]
            outs = [s_ for s_ in p_.stores if s_.array == 'output']
            foreign = sorted({s_.array for s_ in p_.stores if s_.array in ('xx', 'yy', 'params')})
            if len(outs) != 1 or outs[0].op != '=' or len(outs[0].nest) != 2:
                raise AlgebraError('%d stores into output' % len(outs))
            st = outs[0]
            rows = [(v, lo, hi) for v, lo, hi in st.nest if hi.equals(Rat.atom('n')) and lo.is_zero()]
            cols = [(v, lo, hi) for v, lo, hi in st.nest if hi.equals(Rat.atom('m')) and lo.is_zero()]
            if len(rows) != 1 or len(cols) != 1:
                idx_ok = False
                idx_det.append('Nparams=%d: loops %s' % (k, [(v, lo.canon(), hi.canon()) for v, lo, hi in st.nest]))
                continue
            vi, vj = rows[0][0], cols[0][0]
            okp = st.index.equals(Rat.atom(vi) * Rat.atom('m') + Rat.atom(vj))
            idx_ok = idx_ok and okp and not foreign
            if not okp or foreign:
                idx_det.append('Nparams=%d: output[%s]%s' % (k, st.index.canon(), ('; also writes %s' % foreign) if foreign else ''))
            ref = density_reference(name, k, Rat.atom('xx[%s]' % vi), Rat.atom('yy[%s]' % vj))
            okv = st.value.equals(ref)
            rep.ob('R-ALG', 'C %s value [%d parameters]' % (name, k), okv, 'output cell (i, j) = %s' % (('the closed-form density with the %d-parameter layout' % k) if okv else st.value.canon()[:200]), rel, st.line,
                   what={'biv_lognormal': 'exp(-q/2)/(2 pi s1 s2 sqrt(1-rho^2) x y), q = (dx^2 - 2 rho dx dy + dy^2)/(1-rho^2), dx = (log x - mu1)/s1, dy = (log y - mu2)/s2',
                         'biv_ind_gamma': 'product of the gamma densities x^(a_k-1) exp(-x/b_k)/(b_k^a_k Gamma(a_k)) with (a_k, b_k) of each axis'}[name])
            layout_ok = layout_ok and okv
        except (AlgebraError, AnalysisError) as e:
            rep.ob('R-ALG', 'C %s value [%d parameters]' % (name, k), False, 'C %s is not recognised: %s' % (name, e), rel, cf.line, what='content of the output cells')
            layout_ok = None if layout_ok is not False else False
    if layout_ok is not None:
        rep.ob('R-IDX', 'C %s parameter layouts' % name, bool(layout_ok), 'parameter vectors of length %s read with their own layout' % '/'.join(str(k) for k in counts), rel, cf.line,
               what={'biv_lognormal': '3-parameter (shared) and 5-parameter layouts', 'biv_ind_gamma': '2|3-parameter (shared) and 4|5-parameter layouts'}[name])
        rep.ob('R-IDX', 'C %s output index' % name, idx_ok, '; '.join(idx_det) if idx_det else 'cell (i, j) at i*m + j, i over [0, n), j over [0, m); inputs not written', rel, cf.line, what='row-major output')


def check_pdfs(rep, prog):
    cprog = CProgram(files=['dadi/DFE/PDFs.c'])
    rel = 'dadi/DFE/PDFs.c'
    rep.saw_file(rel)
    pm = prog.mod('dadi.DFE.PDFs')
    # ---- biv_lognormal -------------------------------------------------------------------------------------------
    cf = cprog.func('biv_lognormal')
    c_density(rep, cf, rel, 'biv_lognormal', (3, 5))
    py = prog.func('dadi.DFE.PDFs', 'biv_lognormal_py')
    tp = ast.unparse(py)
    okpl = 'mu, sigma, rho = params' in tp and 'mu1 = mu2 = mu' in tp and 'sigma1 = sigma2 = sigma' in tp and 'mu1, mu2, sigma1, sigma2, rho = params' in tp
    rep.ob('R-IDX', 'Python biv_lognormal_py parameter layouts', okpl, 'same two layouts', pm.rel, py.lineno, what='Python reference uses the same layouts')
    try:
        sing = {}
        for n in py.body:
            if isinstance(n, ast.Assign) and isinstance(n.targets[0], ast.Name):
                sing[n.targets[0].id] = n.value
        okpq = Translator().tr(sing['q']).equals(parse_expr('(delx**2 - 2*rho*delx*dely + dely**2)/(1 - rho**2)'))
        okpd = ast.unparse(sing['delx']) == '(np.log(xx[:, np.newaxis]) - mu1) / sigma1' and ast.unparse(sing['dely']) == '(np.log(yy[np.newaxis, :]) - mu2) / sigma2'
        okpn = ast.unparse(sing['norm']) == '2 * np.pi * sigma1 * sigma2 * np.sqrt(1.0 - rho ** 2) * np.outer(xx, yy)'
        rep.ob('R-ALG', 'Python biv_lognormal_py', okpq and okpd and okpn, 'same q, dx, dy and norm (x on rows, y on columns)', pm.rel, py.lineno, what='Python reference equals the C density')
    except (KeyError, AlgebraError) as e:
        rep.ob('R-ALG', 'Python biv_lognormal_py', False, str(e), pm.rel, py.lineno, what='Python reference equals the C density')
    # ---- biv_ind_gamma ---------------------------------------------------------------------------------------------------
    cg = cprog.func('biv_ind_gamma')
    c_density(rep, cg, rel, 'biv_ind_gamma', (2, 3, 4, 5))
    pg = prog.func('dadi.DFE.PDFs', 'biv_ind_gamma_py')
    tg = ast.unparse(pg)
    okpg = 'alpha1 = alpha2 = params[0]' in tg and 'beta1 = beta2 = params[1]' in tg and 'alpha1, alpha2, beta1, beta2 = params[:4]' in tg and 'xmarg = ssd.gamma.pdf(xx, alpha1, scale=beta1)' in tg and \
        'ymarg = ssd.gamma.pdf(yy, alpha2, scale=beta2)' in tg and 'np.outer(xmarg, ymarg)' in tg
    rep.ob('R-ALG', 'Python biv_ind_gamma_py', okpg, 'same layouts; product of gamma(alpha_k, scale=beta_k) marginals', pm.rel, pg.lineno, what='Python reference equals the C density')
    # ---- Lanczos ----------------------------------------------------------------------------------------------------------------
    gf = cprog.func('gamma_func')
    tab = [d for d in gf.body if isinstance(d, CDecl) and d.array_init is not None]
    pub = [676.5203681218851, -1259.1392167224028, 771.32342877765313, -176.61502916214059, 12.507343278686905, -0.13857109526572012, 9.9843695780195716e-6, 1.5056327351493116e-7]
    okt = False
    if tab:
        vals = []
        for v in tab[0].array_init:
            vals.append(-v.operand.value if isinstance(v, ast.UnaryOp) else v.value)
        okt = vals == pub
    rep.ob('R-ALG', 'C gamma_func Lanczos table', okt, 'coefficients p[0..7] of the g=7, n=9 Lanczos approximation', rel, gf.line, what='published Lanczos coefficients')
    # symbolic evaluation of gamma_func on both sides of its regime switch (any statement order, recursive or in-line
    # reflection): y(z >= 1/2) must be the Lanczos value L(z), y(z < 1/2) must be pi / (sin(pi z) * Gamma(1 - z)) with
    # Gamma(1 - z) either the recursive call or L(1 - z)
    okr = False
    det = ''
    try:
        paths = c_sym_paths(gf, {'z': Rat.atom('z')}, vals if tab else [])
        PI = '3.141592653589793'

        def lanczos(w):
            zz = '((%s) - 1)' % w
            xs = ' + '.join(['0.99999999999980993'] + ['(%r)/(%s + %d + 1)' % (pv, zz, i) for i, pv in enumerate(pub)])
            return parse_expr('sqrt(2*%s) * pow(%s + 8 - 0.5, %s + 0.5) * exp(-(%s + 8 - 0.5)) * (%s)' % (PI, zz, zz, zz, xs))
        L_z = lanczos('z')
        refl_rec = parse_expr('%s/(SINPIZ * GREC)' % PI).subs({'SINPIZ': parse_expr('sin(%s*z)' % PI), 'GREC': parse_expr('gamma_func(1.0 - z)')})
        refl_inl = parse_expr('%s/(SINPIZ * LL)' % PI).subs({'SINPIZ': parse_expr('sin(%s*z)' % PI), 'LL': lanczos('1 - z')})
        small = [r for conds, r in paths if ('z < 0.5', True) in conds]
        large = [r for conds, r in paths if ('z < 0.5', False) in conds]
        ok_l = len(large) >= 1 and all(r is not None and r.equals(L_z) for r in large)
        ok_s = len(small) >= 1 and all(r is not None and (r.equals(refl_rec) or r.equals(refl_inl)) for r in small)
        okr = ok_l and ok_s
        det = 'z >= 1/2: %s; z < 1/2: %s' % ('Lanczos value' if ok_l else 'NOT the Lanczos value', 'reflection formula' if ok_s else 'NOT pi/(sin(pi z) Gamma(1-z)): %s' % (small[0].canon()[:160] if small and small[0] is not None else '?'))
    except (AlgebraError, AnalysisError, IndexError, KeyError, AttributeError) as e:
        det = 'not evaluable: %s' % e
    rep.ob('R-ALG', 'C gamma_func recurrence', okr, det, rel, gf.line, what='Lanczos evaluation and reflection formula')
    # wrappers
    pyx = PyxModule('dadi/DFE/PDFs_cython.pyx')
    for name in ('biv_lognormal', 'biv_ind_gamma'):
        w = pyx.wrappers.get(name)
        ok = w is not None and w.c_call is not None and w.c_call[1] == ['<double*> xx.data', '<double*> yy.data', '<double*> params.data', 'xx.size', 'yy.size', 'params.size', '<double*> zz.data'] and w.returns == 'zz' \
            and 'np.empty((xx.size, yy.size)' in w.locals.get('zz', '')
        rep.ob('R-TPL(pyx)', 'PDFs_cython.%s' % name, ok, 'forwards (xx, yy, params, n, m, Nparams, fresh output of shape (n, m))', pyx.rel, w.line if w else 1, what='wrapper forwards sizes and a fresh output array')
        pw = prog.func('dadi.DFE.PDFs', name)
        okw = ('PDFs_cython.%s(np.asarray(xx, dtype=float), np.asarray(yy, dtype=float), np.asarray(params, dtype=float))' % name) in ast.unparse(pw)
        rep.ob('R-TPL(pyx)', 'PDFs.%s' % name, okw, 'arguments converted to float arrays before the raw-pointer call', pm.rel, pw.lineno, what='float64 arrays are handed to the compiled density')


def run(rep, prog, tier):
    for mn in (C1, C2, VO):
        rep.saw_file(prog.mod(mn).rel)
    check_theta(rep, prog)
    check_weights(rep, prog)
    check_quadrature(rep, prog)
    check_schedule(rep, prog)
    check_pdfs(rep, prog)
    rep.floor('R-ALG', 15)
    rep.floor('R-TPL', 12)
