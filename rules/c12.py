"""C12 - Optimisers honour bounds and fixed parameters and report the point they found (DESIGN.md C12)."""
import ast
from sa import generic
from sa.algebra import AlgebraError, parse_expr, Translator
from sa.extract import single_assignments, inline, names_in
from sa.srcmodel import own_nodes, dotted, positional_params, func_params, bind_call
from sa.tags import FnRef, TagAnalysis, run_tags, MIXED
from sa.report import AnalysisError

EXPLANATION = (
    "Decides the wiring of the ten optimiser entry points (NLopt_mod.opt and the nine scipy wrappers in Inference.py) and of "
    "the two objectives, for every input: (1) R-SPACE typestate {nat, log} - the start vector and the bounds handed to the "
    "optimiser are in the space its objective expects, only natural-space vectors are merged with the fixed values, and the "
    "returned vector is in natural space (opt is analysed in the two worlds log_opt=False/True); (2) R-FLOW provenance - the "
    "returned parameter vector derives from the optimiser's result and not from the start vector, and the reported optimum "
    "comes from the same optimiser; (3) R-ARGS - every args tuple matches the objective's positional parameters by name; the "
    "wrapper's bounds reach either the objective's slots or the optimiser's bounds; (4) R-DOM - in both objectives the model "
    "call is preceded by both bound loops over the full-length vector, which return the out-of-bounds penalty (same sign as "
    "the NaN guard) under < and >; (5) the projection helpers are structural inverses and every wrapper projects the start "
    "down and the result up; (6) perturb_params clamps with maximum(.,lower-derived)/minimum(.,upper-derived). What "
    "scipy/nlopt do internally (probing outside a box, evaluation order) is not decided.")
TECHNIQUE = "parameter-space typestate + provenance dataflow + argument-table matching + dominance of bound checks"
DECLINED = ["internal behaviour of scipy.optimize / nlopt (first evaluation point, finite-difference probes)",
            "numerical statement 'no worse than the start'"]

INF = 'dadi.Inference'
SCIPY_WRAPPERS = ['optimize', 'optimize_log', 'optimize_log_resid', 'optimize_lbfgsb', 'optimize_log_lbfgsb',
                  'optimize_log_fmin', 'optimize_log_powell', 'optimize_cons', 'optimize_grid']
# library facts: optimiser -> (has start vector at positional index 1, keyword carrying bounds)
SCIPY_OPT = {'fmin_bfgs': (True, None), 'fmin_l_bfgs_b': (True, 'bounds'), 'fmin': (True, None), 'fmin_powell': (True, None),
             'fmin_slsqp': (True, 'bounds'), 'brute': (False, 'ranges'), 'minimize': (True, 'bounds'), 'fmin_cg': (True, None),
             'fmin_tnc': (True, 'bounds'), 'fmin_cobyla': (True, None)}


def _last(name):
    return (name or '').split('.')[-1]


def space_call_rule(prog, m, objective_spaces, recorder):
    def rule(an, e, args, kws, s):
        fn = dotted(e.func) or ''
        last = _last(fn)
        root = fn.split('.')[0]
        a0 = args[0] if args else None
        if last == 'log' and root in ('numpy', 'np', 'math'):
            if a0 in ('nat',):
                return 'log'
            if a0 in ('log', MIXED):
                return 'bad:log(%s)' % a0
            return None
        if last == 'exp' and root in ('numpy', 'np', 'math'):
            if a0 == 'log':
                return 'nat'
            if a0 in ('nat', MIXED):
                return 'bad:exp(%s)' % a0
            return None
        if last in ('_project_params_down',):
            return a0
        if last == '_project_params_up':
            recorder.append(('up', e, a0))
            return a0
        if last in ('list', 'tuple', 'zip', 'asarray', 'array', 'copy', 'maximum', 'minimum'):
            t = None
            for x in args:
                t = an.jt(t, x)
            return t
        if last in ('len', 'isnan', 'isscalar', 'range', 'open', 'zeros', 'ones', 'ndenumerate'):
            return None
        if fn.startswith('scipy.optimize.') and last in SCIPY_OPT:
            obj = e.args[0] if e.args else None
            sp = objective_spaces(obj)
            recorder.append(('optcall', e, sp, args, kws))
            return sp
        if last == 'optimize' and isinstance(e.func, ast.Attribute):
            recorder.append(('nlopt_optimize', e, a0))
            return a0
        if last in ('set_lower_bounds', 'set_upper_bounds'):
            recorder.append(('nlopt_bounds', e, a0))
            return None
        # a helper of the module that is not one of the functions above: the tag it returns for these argument tags
        callee = None
        try:
            r_ = prog.resolve_expr(m, e.func)
            callee = r_[1] if r_ and r_[0] == 'func' else None
        except Exception:
            callee = None
        depth = getattr(an, '_summary_depth', 0)
        if callee is not None and depth < 3 and not callee._qualname.startswith('_object_func') and len(list(own_nodes(callee))) < 60:
            pp = positional_params(callee)
            seeds = {p_: t_ for p_, t_ in zip(pp, args)}
            seeds.update({k_: v_ for k_, v_ in kws.items() if k_ in pp})
            try:
                an2 = TagAnalysis(callee, seeds=seeds, call_rule=rule, fnref_rule=make_fnref_rule(prog, callee._module))
                an2._summary_depth = depth + 1
                from sa.flow import Engine
                Engine(an2).run_function(callee, an2.initial())
                t = None
                for (_st, t_, _s) in an2.returns:
                    t = an2.jt(t, t_)
                return t
            except Exception:
                return None
        return None
    return rule


def make_fnref_rule(prog, m):
    """which expressions denote functions (so that a variable assigned from them is a function-valued variable)"""
    def fnref(e, s):
        d = dotted(e)
        if not d:
            return None
        root = d.split('.')[0]
        if root in s:
            return None
        if root in ('numpy', 'np', 'math') and _last(d) in ('log', 'exp', 'log10', 'log2', 'asarray', 'array'):
            return d
        try:
            r_ = prog.resolve_expr(m, e)
        except Exception:
            return None
        return d if r_ and r_[0] == 'func' else None
    return fnref


def objective_space(prog, m, fn, depth=0):
    """space ('nat'/'log') in which the objective fn expects its first argument"""
    if depth > 4:
        return None
    p0 = positional_params(fn)[0]
    for n in own_nodes(fn):
        if isinstance(n, ast.Call) and dotted(n.func) == 'model_func':
            return 'nat'
    for n in own_nodes(fn):
        if isinstance(n, ast.Call):
            callee = prog.resolve_call(m, n, scope=fn)
            if callee is not None and callee._qualname.startswith('_object_func') and n.args:
                inner = objective_space(prog, callee._module, callee, depth + 1)
                for cand in ('nat', 'log'):
                    got = []

                    def rule(an, e, args, kws, s, got=got, target=n):
                        fnm = dotted(e.func) or ''
                        if _last(fnm) == 'exp':
                            return {'log': 'nat'}.get(args[0] if args else None, 'bad')
                        if _last(fnm) == 'log':
                            return {'nat': 'log'}.get(args[0] if args else None, 'bad')
                        if e is target:
                            got.append(args[0] if args else None)
                        return None
                    run_tags(fn, seeds={p0: cand}, call_rule=rule)
                    if got and got[0] == inner:
                        return cand
    return None


def base_objective(prog, m, fn, depth=0):
    """follow forwarding wrappers (_object_func_log -> _object_func) to the function whose positional
    parameters the args tuple fills"""
    if depth > 4:
        return fn
    for n in own_nodes(fn):
        if isinstance(n, ast.Call):
            callee = prog.resolve_call(m, n, scope=fn)
            if callee is not None and callee is not fn and callee._qualname.startswith('_object_func') \
                    and any(isinstance(a, ast.Starred) for a in n.args):
                return base_objective(prog, callee._module, callee, depth + 1)
    return fn


class Prov(TagAnalysis):
    """may-provenance: tags are frozensets of source labels; join is union"""

    def jt(self, a, b):
        if a is None:
            return b
        if b is None:
            return a
        return a | b

    def default_call(self, e, args, kws, s):
        fn = dotted(e.func) or ''
        if _last(fn) in ('len', 'open', 'isnan', 'isscalar'):
            return None
        t = None
        for x in list(args) + list(kws.values()):
            t = self.jt(t, x)
        if isinstance(e.func, ast.Attribute):
            t = self.jt(t, self.ev(e.func.value, s))
        return t


def objective_expr(fn, node):
    """the function an optimiser call minimises: through a local name and through functools.partial(f, **settings)"""
    singles = single_assignments(fn)
    for _ in range(4):
        if isinstance(node, ast.Name) and node.id in singles:
            node = singles[node.id]
            continue
        if isinstance(node, ast.Call) and _last(dotted(node.func)) == 'partial' and node.args:
            node = node.args[0]
            continue
        break
    return node


def objective_settings(fn, call):
    """(slot -> expression) of the settings an optimiser call hands to its objective: the `args=` tuple in the order of the objective's
    parameters after the first, or the keywords of a functools.partial; None when neither is present"""
    singles = single_assignments(fn)
    kw = {k.arg: k.value for k in call.keywords}
    node = call.args[0] if call.args else None
    part = None
    for _ in range(4):
        if isinstance(node, ast.Name) and node.id in singles:
            node = singles[node.id]
            continue
        if isinstance(node, ast.Call) and _last(dotted(node.func)) == 'partial' and node.args:
            part = node
        break
    return kw, part


def check_entry(rep, prog, m, fn, worlds):
    q = fn._qualname
    rel = m.rel
    rep.saw_function(rel + ':' + q)
    params = func_params(fn)

    def objective_spaces(node):
        node = objective_expr(fn, node)
        if node is None:
            return None
        r = prog.resolve_expr(m, node, scope=fn)
        if r and r[0] == 'func':
            return objective_space(prog, r[1]._module, r[1])
        return None

    for world in worlds:
        wtxt = ('[%s]' % ','.join('%s=%s' % kv for kv in sorted(world.items()))) if world else ''
        rec = []
        seeds = {p: 'nat' for p in ('p0', 'lower_bound', 'upper_bound', 'fixed_params', 'grid') if p in params}
        an, exits = run_tags(fn, seeds=seeds, world=world, call_rule=space_call_rule(prog, m, objective_spaces, rec), fnref_rule=make_fnref_rule(prog, m))
        optcalls = [r for r in rec if r[0] == 'optcall']
        nlo = [r for r in rec if r[0] == 'nlopt_optimize']
        if not optcalls and not nlo:
            raise AnalysisError('anchor vanished: no optimiser call found in %s' % q)
        for (_, e, sp, args, kws) in optcalls:
            name = _last(dotted(e.func))
            has_start, bkw = SCIPY_OPT[name]
            if sp is None:
                raise AnalysisError('cannot determine the parameter space of the objective passed in %s' % q)
            if has_start:
                start = args[1] if len(args) > 1 else kws.get('x0')
                rep.ob('R-SPACE', '%s%s start' % (q, wtxt), start == sp,
                       'objective %s works in %s space; the start vector %s carries tag %r'
                       % (ast.unparse(e.args[0]), sp, ast.unparse(e.args[1]) if len(e.args) > 1 else '?', start),
                       rel, e.lineno, what='start vector in the objective\'s space')
            if bkw and bkw in kws and bkw != 'ranges':
                b = kws[bkw]
                rep.ob('R-SPACE', '%s%s bounds' % (q, wtxt), b in (sp, None),
                       'optimiser works in %s space; bounds=%s carries tag %r' % (sp, ast.unparse([k.value for k in e.keywords if k.arg == bkw][0]), b),
                       rel, e.lineno, what='bounds in the optimiser\'s space')
        for (_, e, a0) in nlo:
            sp = 'log' if world.get('log_opt') else 'nat'
            rep.ob('R-SPACE', '%s%s start' % (q, wtxt), a0 == sp, 'optimiser works in %s space; start vector carries tag %r' % (sp, a0),
                   rel, e.lineno, what='start vector in the objective\'s space')
            for r in rec:
                if r[0] == 'nlopt_bounds':
                    rep.ob('R-SPACE', '%s%s %s' % (q, wtxt, _last(dotted(r[1].func))), r[2] in (sp, None),
                           'optimiser works in %s space; bound vector carries tag %r' % (sp, r[2]), rel, r[1].lineno,
                           what='bounds in the optimiser\'s space')
        for r in rec:
            if r[0] == 'up':
                rep.ob('R-SPACE', '%s%s _project_params_up' % (q, wtxt), r[2] == 'nat',
                       'vector merged with the (natural-space) fixed values carries tag %r' % (r[2],), rel, r[1].lineno,
                       what='only natural-space vectors are merged with fixed values')
        for (st, t, s) in an.returns:
            v = st.value
            first = v.elts[0] if isinstance(v, ast.Tuple) else v
            ft = an.ev(first, s)
            rep.ob('R-SPACE', '%s%s return' % (q, wtxt), ft == 'nat', 'returned parameter vector %s carries tag %r' % (ast.unparse(first), ft),
                   rel, st.lineno, what='returned parameters are in natural space')

        # ---- provenance --------------------------------------------------------------------------------
        optnodes = {id(r[1]) for r in optcalls} | {id(r[1]) for r in nlo}
        bounds_seen = []

        def prov_rule(an2, e, args, kws, s):
            fn_ = dotted(e.func) or ''
            if id(e) in optnodes:
                bounds_seen.append(('optkw', e, args, kws))
                return frozenset(['opt'])
            if _last(fn_) in ('set_lower_bounds', 'set_upper_bounds'):
                bounds_seen.append((_last(fn_), e, args, kws))
                return None
            if _last(fn_) in ('last_optimum_value', 'last_optimize_result'):
                base = an2.ev(e.func.value, s)
                return frozenset(['optval:' + ast.unparse(e.func.value)])
            return NotImplemented
        pseeds = {}
        for p in params:
            if p == 'p0':
                pseeds[p] = frozenset(['start'])
            elif p in ('lower_bound', 'upper_bound'):
                pseeds[p] = frozenset([p])
        an2, _ = run_tags(fn, seeds=pseeds, world=world, call_rule=prov_rule, analysis_class=Prov)
        for (st, t, s) in an2.returns:
            v = st.value
            first = v.elts[0] if isinstance(v, ast.Tuple) else v
            pt = an2.ev(first, s) or frozenset()
            ok = 'opt' in pt and 'start' not in pt
            rep.ob('R-FLOW', '%s%s return' % (q, wtxt), ok,
                   'returned parameter vector %s has provenance %s; it must derive from the optimiser result and not from the start vector'
                   % (ast.unparse(first), sorted(pt)), rel, st.lineno, what='returned parameters derive from the optimiser result')
            if isinstance(v, ast.Tuple) and len(v.elts) > 1:
                second = an2.ev(v.elts[1], s) or frozenset()
                ok2 = 'opt' in second or any(x.startswith('optval:') for x in second)
                rep.ob('R-FLOW', '%s%s return' % (q, wtxt), ok2, 'reported optimum %s has provenance %s' % (ast.unparse(v.elts[1]), sorted(second)),
                       rel, st.lineno, what='reported optimum comes from the optimiser')
        # bounds not dropped
        if 'lower_bound' in params and 'upper_bound' in params:
            reach = {'lower_bound': False, 'upper_bound': False}
            for kind, e, args, kws in bounds_seen:
                if kind == 'optkw':
                    allp = frozenset()
                    for x in list(args) + list(kws.values()):
                        if x:
                            allp = allp | x
                    for b in reach:
                        if b in allp:
                            reach[b] = True
                elif kind == 'set_lower_bounds' and args and args[0] and 'lower_bound' in args[0]:
                    reach['lower_bound'] = True
                elif kind == 'set_upper_bounds' and args and args[0] and 'upper_bound' in args[0]:
                    reach['upper_bound'] = True
            for b, okb in reach.items():
                rep.ob('R-FLOW', '%s%s %s' % (q, wtxt, b), okb,
                       'the wrapper\'s %s %s the optimiser call (objective args or bounds)' % (b, 'reaches' if okb else 'never reaches'),
                       rel, fn.lineno, what='%s is not dropped' % b)



def check_bound_shapes(rep, prog, m, fn, worlds):
    """vectors come in two lengths: `full` (one entry per model parameter: p0, lower_bound, upper_bound as given) and
    `contracted` (_project_params_down removed the fixed entries).  The objective expands its argument and compares the FULL
    vector with the bounds it is handed, so whatever reaches its lower_bound / upper_bound slots must be full length."""
    of = prog.func(INF, '_object_func')
    slots = positional_params(of)[1:]
    for world in worlds:
        closure = {}
        snaps = {}

        def rule(an, e, args, kws, s):
            f = dotted(e.func) or ''
            last = f.split('.')[-1]
            if last == '_project_params_down':
                return 'contracted'
            if last == '_project_params_up':
                return 'full'
            if last in ('log', 'exp', 'array', 'asarray', 'list', 'tuple', 'copy'):
                return args[0] if args else None
            return None

        def obs(node, tag_of, state):
            closure[node.name] = state
        an, exits = run_tags(fn, seeds={'p0': 'full', 'lower_bound': 'full', 'upper_bound': 'full'}, world=world, call_rule=rule, observe=obs)
        found = []
        # (a) direct calls (own body and nested objective wrappers)
        def calls_in(f_, state_of):
            for c in ast.walk(f_):
                if isinstance(c, ast.Call) and (dotted(c.func) or '').split('.')[-1].startswith('_object_func'):
                    for k in c.keywords:
                        if k.arg in ('lower_bound', 'upper_bound'):
                            found.append((c, k.arg, state_of(k.value)))
        for (e, args, kws, s) in an.calls:
            if (dotted(e.func) or '').split('.')[-1].startswith('_object_func'):
                for k in ('lower_bound', 'upper_bound'):
                    if k in kws:
                        found.append((e, k, kws[k]))
        for name, st in closure.items():
            nested = [n for n in fn.body if isinstance(n, ast.FunctionDef) and n.name == name]
            if nested:
                local = {x.id for x in ast.walk(nested[0]) if isinstance(x, ast.Name) and isinstance(x.ctx, ast.Store)}
                calls_in(nested[0], lambda v, st=st, local=local: (st.get(v.id) if isinstance(v, ast.Name) and v.id not in local else None))
        # (b) the args tuple handed to the scipy drivers: positions follow _object_func's parameters after `params`
        for (e, args, kws, s) in []:
            pass
        tup = [n for n in own_nodes(fn) if isinstance(n, ast.Assign) and ast.unparse(n.targets[0]) == 'args' and isinstance(n.value, ast.Tuple)]
        for t in tup:
            # state at this statement: re-evaluate the names with a small forward scan (names are not rebound between the
            # beginning of the function and the tuple except by the projection statements, which come later in every driver)
            pre = {}
            for st in fn.body:
                if st is t or getattr(st, 'lineno', 0) >= t.lineno:
                    break
                if isinstance(st, ast.Assign) and isinstance(st.targets[0], ast.Name) and isinstance(st.value, ast.Call) and \
                        (dotted(st.value.func) or '').split('.')[-1] == '_project_params_down':
                    pre[st.targets[0].id] = 'contracted'
            names = slots if 'target_resid' not in ast.unparse(t.value) else positional_params(prog.func(INF, '_object_func_resid'))[1:]
            for slot, el in zip(names, t.value.elts):
                if slot in ('lower_bound', 'upper_bound'):
                    tag = pre.get(el.id, 'full') if isinstance(el, ast.Name) else None
                    found.append((t, slot, tag))
        for node, slot, tag in found:
            rep.ob('R-SHAPE', '%s[%s] objective %s' % (fn.name, ','.join('%s=%s' % kv for kv in sorted(world.items())) or '-', slot), tag in ('full', None),
                   'value of %s handed to the objective is %s' % (slot, tag or 'not a tracked vector (None / constant)'), m.rel, node.lineno,
                   what='bounds compared inside the objective have one entry per model parameter (not the vector contracted around fixed_params)')


def check_args_tuple(rep, prog, m, fn):
    """R-ARGS: args tuple vs positional parameters of the base objective"""
    q = fn._qualname
    singles = single_assignments(fn)
    for n in own_nodes(fn):
        if isinstance(n, ast.Call) and (dotted(n.func) or '').startswith('scipy.optimize.'):
            kw, part = objective_settings(fn, n)
            if ('args' not in kw and part is None) or not n.args:
                continue
            r = prog.resolve_expr(m, objective_expr(fn, n.args[0]), scope=fn)
            if not (r and r[0] == 'func'):
                raise AnalysisError('objective of %s does not resolve' % q)
            base = base_objective(prog, r[1]._module, r[1])
            slots = positional_params(base)[1:]
            if part is not None:
                # functools.partial(objective, slot=value, ...): the settings by name, in the order of the objective's parameters
                if len(part.args) != 1 or 'args' in kw:
                    raise AnalysisError('objective of %s is bound positionally and by keyword: not recognised' % q)
                pk = {k.arg: k.value for k in part.keywords}
                unknown = [k_ for k_ in pk if k_ not in slots]
                rep.ob('R-ARGS', '%s args' % q, not unknown, ('keywords %s are not parameters of %s' % (unknown, base._qualname)) if unknown else '%d settings bound by name for %d slots of %s' % (len(pk), len(slots), base._qualname),
                       m.rel, n.lineno, what='args tuple length')
                pairs = [(slot, pk[slot]) for slot in slots if slot in pk]
            else:
                tup = inline(kw['args'], singles, depth=1)
                if not isinstance(tup, ast.Tuple):
                    raise AnalysisError('args of the optimiser call in %s is not a literal tuple' % q)
                rep.ob('R-ARGS', '%s args' % q, len(tup.elts) <= len(slots), '%d values for %d slots of %s' % (len(tup.elts), len(slots), base._qualname),
                       m.rel, n.lineno, what='args tuple length')
                pairs = list(zip(slots, tup.elts))
            native_bounds = kw.get('bounds') is not None
            for slot, el in pairs:
                if isinstance(el, ast.Name):
                    ok = el.id == slot or (slot == 'store_thetas' and el.id == 'full_output')
                    det = 'slot %s receives variable %s' % (slot, el.id)
                elif isinstance(el, ast.Constant):
                    if slot in ('lower_bound', 'upper_bound'):
                        ok = el.value is None and (native_bounds or 'lower_bound' not in func_params(fn))
                        det = 'slot %s receives literal %r (%s)' % (slot, el.value, 'bounds are enforced by the optimiser itself' if native_bounds else 'wrapper has no bounds')
                    elif slot == 'll_scale':
                        ok = el.value in (1, 1.0)
                        det = 'slot ll_scale receives literal %r' % el.value
                    else:
                        ok = False
                        det = 'slot %s receives literal %r' % (slot, el.value)
                else:
                    ok, det = False, 'slot %s receives expression %s' % (slot, ast.unparse(el))
                rep.ob('R-ARGS', '%s args' % q, ok, det, m.rel, n.lineno, what='slot ' + slot)


def bounds_by_any(rep, fn, body, model_idx, up_var, q, rel):
    """the bound checks written with any(): `B is not None and any(b is not None and p < b for p, b in zip(params_up, B))` for each
    bound B, combined into the test of one `if` that returns the penalty before the model is evaluated.  The test is evaluated as
    a boolean function of the four atoms (bound given, some parameter beyond it) x (lower, upper) and must equal
    (lower given and violated) or (upper given and violated).  Returns True when this form was found (obligations recorded)."""
    sing = single_assignments(fn)
    atoms = {}
    for bname, op in (('lower_bound', ast.Lt), ('upper_bound', ast.Gt)):
        for st in body[:model_idx]:
            for c in ast.walk(st):
                if not (isinstance(c, ast.Call) and dotted(c.func) == 'any' and len(c.args) == 1 and isinstance(c.args[0], (ast.GeneratorExp, ast.ListComp)) and len(c.args[0].generators) == 1):
                    continue
                g = c.args[0].generators[0]
                if not (isinstance(g.iter, ast.Call) and dotted(g.iter.func) == 'zip' and [ast.unparse(a) for a in g.iter.args] == [up_var, bname] and isinstance(g.target, ast.Tuple)
                        and len(g.target.elts) == 2 and not g.ifs):
                    continue
                pv, bv = [ast.unparse(t) for t in g.target.elts]
                elt = c.args[0].elt
                conj = [ast.unparse(v) for v in (elt.values if isinstance(elt, ast.BoolOp) and isinstance(elt.op, ast.And) else [elt])]
                flip = {ast.Lt: '>', ast.Gt: '<'}[op]
                sym = {ast.Lt: '<', ast.Gt: '>'}[op]
                if sorted(conj) in (sorted(['%s is not None' % bv, '%s %s %s' % (pv, sym, bv)]), sorted(['%s is not None' % bv, '%s %s %s' % (bv, flip, pv)])):
                    atoms[bname] = c
    if len(atoms) != 2:
        return False
    ids = {id(atoms['lower_bound']): 'Bl', id(atoms['upper_bound']): 'Bu'}

    def ev(e, val, depth=0):
        if id(e) in ids:
            return val[ids[id(e)]]
        t = ast.unparse(e)
        if t == 'lower_bound is not None':
            return val['Al']
        if t == 'upper_bound is not None':
            return val['Au']
        if t == 'lower_bound is None':
            return not val['Al']
        if t == 'upper_bound is None':
            return not val['Au']
        if isinstance(e, ast.BoolOp):
            vs = [ev(v, val, depth) for v in e.values]
            if any(v is None for v in vs):
                return None
            return all(vs) if isinstance(e.op, ast.And) else any(vs)
        if isinstance(e, ast.UnaryOp) and isinstance(e.op, ast.Not):
            v = ev(e.operand, val, depth)
            return None if v is None else not v
        if isinstance(e, ast.Name) and e.id in sing and depth < 6:
            return ev(sing[e.id], val, depth + 1)
        return None
    import itertools
    verdict = None
    for st in body[:model_idx]:
        if isinstance(st, ast.If) and not st.orelse and any(isinstance(x, ast.Return) for x in st.body):
            table = []
            for Al, Bl, Au, Bu in itertools.product([False, True], repeat=4):
                got = ev(st.test, {'Al': Al, 'Bl': Bl, 'Au': Au, 'Bu': Bu})
                table.append((got, (Al and Bl) or (Au and Bu)))
            if all(g is not None for g, _ in table):
                verdict = (st, all(g == w for g, w in table))
    if verdict is None:
        return False
    st, okt = verdict
    rets = [x for x in st.body if isinstance(x, ast.Return)]
    for bname in ('lower_bound', 'upper_bound'):
        rep.ob('R-DOM', '%s %s check' % (q, bname), okt and len(rets) == 1, 'test %s, with %s = %s, returns %s (truth table over bound given / violated)' % (
            ast.unparse(st.test), bname, ast.unparse(atoms[bname])[:70], ast.unparse(rets[0].value) if rets else '?'), rel, st.lineno, what='%s checked before the model is evaluated' % bname)
    if rets:
        final = [x for x in body if isinstance(x, ast.Return)]
        if final and ast.unparse(final[-1].value) != 'result':
            try:
                same = Translator({'result': parse_expr('_out_of_bounds_val')}).tr(final[-1].value).equals(Translator().tr(rets[0].value))
            except AlgebraError:
                same = True
            for bname in ('lower_bound', 'upper_bound'):
                rep.ob('R-ALG', '%s %s penalty' % (q, bname), same, 'out-of-bounds return %s vs normal return %s with result:=_out_of_bounds_val' % (ast.unparse(rets[0].value), ast.unparse(final[-1].value)),
                       rel, rets[0].lineno, what='penalty has the sign and scale of the NaN guard')
    return True


def check_objective(rep, prog, m, fn):
    """R-DOM: model call preceded by both bound loops over the projected-up vector"""
    q = fn._qualname
    rel = m.rel
    rep.saw_function(rel + ':' + q)
    body = fn.body
    model_idx, up_var = None, None
    for i, st in enumerate(body):
        for n in ast.walk(st):
            if isinstance(n, ast.Call) and dotted(n.func) == 'model_func' and model_idx is None:
                model_idx = i
        if isinstance(st, ast.Assign) and isinstance(st.value, ast.Call) and _last(dotted(st.value.func)) == '_project_params_up' \
                and isinstance(st.targets[0], ast.Name):
            up_var = st.targets[0].id
            ok = len(st.value.args) == 2 and ast.unparse(st.value.args[0]) == positional_params(fn)[0] and ast.unparse(st.value.args[1]) == 'fixed_params'
            rep.ob('R-IDX', '%s project up' % q, ok, ast.unparse(st), rel, st.lineno, what='objective merges its argument with fixed_params')
    if model_idx is None or up_var is None:
        raise AnalysisError('anchor vanished: model call / projection in %s' % q)
    vector_form = bounds_by_any(rep, fn, body, model_idx, up_var, q, rel)
    for bname, op, opname in (('lower_bound', ast.Lt, '<'), ('upper_bound', ast.Gt, '>')):
        if vector_form:
            break
        found = None
        for i, st in enumerate(body[:model_idx]):
            if isinstance(st, ast.If) and bname in names_in(st.test):
                found = (i, st)
        if found is None:
            rep.ob('R-DOM', '%s %s check' % (q, bname), False, 'no %s check precedes the model evaluation' % bname, rel, fn.lineno,
                   what='%s checked before the model is evaluated' % bname)
            continue
        i, st = found
        tst = st.test
        okg = isinstance(tst, ast.Compare) and isinstance(tst.ops[0], ast.IsNot) and ast.unparse(tst.left) == bname
        loops = [x for x in st.body if isinstance(x, ast.For)]
        ok = okg and len(loops) == 1 and not st.orelse
        det = 'guard %s' % ast.unparse(tst)
        if ok:
            lp = loops[0]
            it = lp.iter
            ok = isinstance(it, ast.Call) and dotted(it.func) == 'zip' and len(it.args) == 2 and \
                ast.unparse(it.args[0]) == up_var and ast.unparse(it.args[1]) == bname and isinstance(lp.target, ast.Tuple)
            det = 'loop over %s' % ast.unparse(it)
            if ok:
                pv, bv = [t.id for t in lp.target.elts]
                ifs = [x for x in lp.body if isinstance(x, ast.If)]
                ok = len(ifs) == 1 and len(lp.body) == 1
                if ok:
                    c = ifs[0].test
                    cmps = [x for x in ast.walk(c) if isinstance(x, ast.Compare) and isinstance(x.ops[0], (ast.Lt, ast.Gt, ast.LtE, ast.GtE))]
                    ok = len(cmps) == 1 and isinstance(cmps[0].ops[0], op) and ast.unparse(cmps[0].left) == pv and ast.unparse(cmps[0].comparators[0]) == bv
                    # normalise flipped form bound > pval
                    if len(cmps) == 1 and not ok:
                        flip = {ast.Lt: ast.Gt, ast.Gt: ast.Lt}[op]
                        ok = isinstance(cmps[0].ops[0], flip) and ast.unparse(cmps[0].left) == bv and ast.unparse(cmps[0].comparators[0]) == pv
                    rets = [x for x in ifs[0].body if isinstance(x, ast.Return)]
                    ok = ok and len(rets) == 1
                    det = 'test %s returns %s' % (ast.unparse(c), ast.unparse(rets[0].value) if rets else '?')
                    if ok:
                        pen = rets[0].value
                        # penalty must equal the normal return with result := _out_of_bounds_val (same sign as the NaN guard)
                        final = [x for x in body if isinstance(x, ast.Return)]
                        if final:
                            try:
                                env = {'result': parse_expr('_out_of_bounds_val')}
                                same = Translator(env).tr(final[-1].value).equals(Translator().tr(pen))
                                samesign = same or ast.unparse(final[-1].value) == 'result'
                            except AlgebraError:
                                samesign = True
                            if ast.unparse(final[-1].value) != 'result':
                                rep.ob('R-ALG', '%s %s penalty' % (q, bname), samesign,
                                       'out-of-bounds return %s vs normal return %s with result:=_out_of_bounds_val' % (ast.unparse(pen), ast.unparse(final[-1].value)),
                                       rel, rets[0].lineno, what='penalty has the sign and scale of the NaN guard')
        rep.ob('R-DOM', '%s %s check' % (q, bname), ok, det + (' (parameter value %s bound returns the penalty before the model is evaluated)' % opname),
               rel, st.lineno, what='%s checked before the model is evaluated' % bname)
    # the model receives the projected-up vector
    for n in ast.walk(body[model_idx]):
        pass
    allargs = single_assignments(fn).get('all_args')
    okm = allargs is not None and isinstance(allargs, ast.BinOp) and isinstance(allargs.left, ast.List) and allargs.left.elts and \
        ast.unparse(allargs.left.elts[0]) == up_var
    rep.ob('R-IDX', '%s model call' % q, bool(okm), 'model arguments = %s' % (ast.unparse(allargs) if allargs is not None else '?'), rel,
           body[model_idx].lineno, what='model is evaluated at the full-length parameter vector')


def check_projection(rep, prog, m):
    """_project_params_down / _project_params_up on every pattern of fixed and free slots up to four parameters (abstract execution
    with concrete patterns and symbolic values): down keeps exactly the free entries in order, up puts the k-th entry of its
    argument into the k-th free slot and the fixed value into every fixed slot; None means 'nothing fixed'; a scalar argument of up
    is one free value."""
    import itertools
    from sa import miniexec as mx
    from sa import alpha as _alpha
    down = prog.func(INF, '_project_params_down')
    up = prog.func(INF, '_project_params_up')
    rel = m.rel
    known = _alpha.load_table().get('__params__', {}).get(rel)
    known = set(known) if known is not None else None

    def hook(nm, args, kwargs):
        if nm.split('.')[-1] == 'isscalar' and len(args) == 1:
            return not isinstance(args[0], (list, tuple)) and not (isinstance(args[0], mx.Sym) and args[0].length is not None)
        return NotImplemented

    def content(value, events):
        """the entries of the returned vector: from numpy.array([..]) / a list, or from the stores into a zeros/empty array"""
        c = mx.call_of(value, 'array') or mx.call_of(value, 'asarray')
        if c is not None and c[0] and isinstance(c[0][0], (list, tuple)):
            return [mx.show(x) for x in c[0][0]]
        if isinstance(value, (list, tuple)):
            return [mx.show(x) for x in value]
        z = mx.call_of(value, 'zeros') or mx.call_of(value, 'empty')
        if z is not None and z[0] and isinstance(z[0][0], int):
            cells = [None] * z[0][0]
            for e in events:
                if e[0] == 'setitem' and mx.show(e[4]) == mx.show(value) and isinstance(e[2], int) and 0 <= e[2] < len(cells):
                    cells[e[2]] = mx.show(e[3])
                elif e[0] in ('setitem', 'augitem') and mx.show(e[4] if e[0] == 'setitem' else e[1]) == mx.show(value):
                    return None
            return cells
        return None
    badd, badu, n_runs = [], [], 0
    try:
        for n in range(1, 5):
            # a fixed value is a non-zero symbol ('F') or the number zero ('Z': fixing a parameter at 0 is legitimate and must not be
            # confused with 'free')
            for pattern in itertools.product((None, 'F', 'Z') if n <= 3 else (None, 'F'), repeat=n):
                fixed = [None if x is None else (mx.Sym('f%d' % k, truth=True) if x == 'F' else 0.0) for k, x in enumerate(pattern)]
                free = [k for k, x in enumerate(pattern) if x is None]
                tag = 'fixed pattern %s' % ''.join('-' if x is None else x for x in pattern)
                # down
                pin = [mx.Sym('p%d' % k) for k in range(n)]
                it = mx.Interp(prog, m, known_functions=known, call_hook=hook)
                paths = [p_ for p_ in it.run(down, {'pin': pin, 'fixed_params': list(fixed)}) if p_[0][0] == 'return']
                n_runs += 1
                got = content(paths[0][0][1], paths[0][1]) if len(paths) == 1 else None
                if got != ['p%d' % k for k in free]:
                    badd.append('%s: returns %s' % (tag, got if got is not None else mx.show(paths[0][0][1])[:50] if paths else 'nothing'))
                # up
                pin = [mx.Sym('q%d' % k) for k in range(len(free))]
                it = mx.Interp(prog, m, known_functions=known, call_hook=hook)
                paths = [p_ for p_ in it.run(up, {'pin': pin, 'fixed_params': list(fixed)}) if p_[0][0] == 'return']
                n_runs += 1
                got = content(paths[0][0][1], paths[0][1]) if len(paths) == 1 else None
                want = ['q%d' % free.index(k) if k in free else mx.show(fixed[k]) for k in range(n)]
                if got != want:
                    badu.append('%s: returns %s, expected %s' % (tag, got if got is not None else mx.show(paths[0][0][1])[:50] if paths else 'nothing', want))
                if len(free) == 1:
                    it = mx.Interp(prog, m, known_functions=known, call_hook=hook)
                    paths = [p_ for p_ in it.run(up, {'pin': mx.Sym('q0'), 'fixed_params': list(fixed)}) if p_[0][0] == 'return']
                    got = content(paths[0][0][1], paths[0][1]) if len(paths) == 1 else None
                    if got != want:
                        badu.append('%s with a scalar argument: returns %s' % (tag, got))
        # nothing fixed at all; a pattern of the wrong length
        for fn_, lst in ((down, badd), (up, badu)):
            it = mx.Interp(prog, m, known_functions=known, call_hook=hook)
            paths = it.run(fn_, {'pin': mx.Sym('pin', length=3), 'fixed_params': None})
            if not (len(paths) == 1 and paths[0][0][0] == 'return' and mx.show(paths[0][0][1]) == 'pin'):
                lst.append('fixed_params=None does not return the argument unchanged')
        it = mx.Interp(prog, m, known_functions=known, call_hook=hook)
        paths = it.run(down, {'pin': [mx.Sym('p0'), mx.Sym('p1')], 'fixed_params': [None, None, mx.Sym('f2')]})
        if any(p_[0][0] == 'return' for p_ in paths):
            badd.append('a pattern longer than the parameter vector is accepted')
    except mx.Undecidable as e:
        rep.ob('R-TPL', '_project_params_down', False, 'selection loop not recognised: %s' % e, rel, down.lineno, what='keeps exactly the entries whose fixed value is None, in order')
        rep.ob('R-TPL', '_project_params_up', False, 'refill loop not recognised: %s' % e, rel, up.lineno, what='refills the free slots in order and the fixed slots with their fixed values')
        return
    rep.ob('R-TPL', '_project_params_down', not badd, '; '.join(badd[:2]) if badd else 'every pattern of 1-4 slots: the free entries, in order (%d runs)' % n_runs, rel, down.lineno,
           what='keeps exactly the entries whose fixed value is None, in order')
    rep.ob('R-TPL', '_project_params_up', not badu, '; '.join(badu[:2]) if badu else 'every pattern of 1-4 slots: k-th value into the k-th free slot, fixed values into their slots (%d runs)' % n_runs, rel, up.lineno,
           what='refills the free slots in order and the fixed slots with their fixed values')


def _const(x):
    if isinstance(x, ast.Constant) and isinstance(x.value, (int, float)) and not isinstance(x.value, bool):
        return x.value
    return None


def _scaled(expr, b):
    """expr == c*b  ->  c ; b itself -> 1 ; else None     (b given as unparsed text)"""
    if ast.unparse(expr) == b:
        return 1
    if isinstance(expr, ast.BinOp) and isinstance(expr.op, ast.Mult):
        for c, x in ((expr.left, expr.right), (expr.right, expr.left)):
            if _const(c) is not None and ast.unparse(x) == b:
                return _const(c)
    return None


def clamp_level_inside(level, kind):
    """Is level(b) >= b (kind='lower') resp. <= b (kind='upper') for EVERY real b?  Recognised forms:
    b;  c*b (only c == 1);  b +/- k*abs(b);  where(b > 0, c1*b, c2*b) / where(b < 0, ...) / >=, <=.
    Returns (True/False, reason) or (None, reason) when the form is not recognised."""
    if isinstance(level, ast.Call) and _last(dotted(level.func)) in ('asarray', 'array', 'float64') and level.args:
        return clamp_level_inside(level.args[0], kind)
    if isinstance(level, (ast.Name, ast.Attribute)):
        return True, 'clamps exactly at the bound'
    if isinstance(level, ast.BinOp) and isinstance(level.op, ast.Mult):
        for c, x in ((level.left, level.right), (level.right, level.left)):
            if _const(c) is not None:
                if _const(c) == 1:
                    return True, 'clamps exactly at the bound'
                return False, ('clamp level %s is a constant multiple of the bound: for a bound of the other sign it lies outside '
                               'the box' % ast.unparse(level))
    if isinstance(level, ast.BinOp) and isinstance(level.op, (ast.Add, ast.Sub)):
        b = ast.unparse(level.left)
        r = level.right
        k = None
        if isinstance(r, ast.BinOp) and isinstance(r.op, ast.Mult):
            for c, x in ((r.left, r.right), (r.right, r.left)):
                if _const(c) is not None and isinstance(x, ast.Call) and _last(dotted(x.func)) in ('abs', 'absolute', 'fabs') \
                        and ast.unparse(x.args[0]) == b:
                    k = _const(c)
        if k is not None and k >= 0:
            ok = isinstance(level.op, ast.Add) if kind == 'lower' else isinstance(level.op, ast.Sub)
            return ok, 'level = bound %s %g*|bound|' % ('+' if isinstance(level.op, ast.Add) else '-', k)
    if isinstance(level, ast.Call) and _last(dotted(level.func)) == 'where' and len(level.args) == 3:
        t, a, c = level.args
        if isinstance(t, ast.Compare) and len(t.ops) == 1 and _const(t.comparators[0]) == 0:
            b = ast.unparse(t.left)
            pos, neg = (a, c) if isinstance(t.ops[0], (ast.Gt, ast.GtE)) else (c, a) if isinstance(t.ops[0], (ast.Lt, ast.LtE)) else (None, None)
            if pos is not None:
                cp, cn = _scaled(pos, b), _scaled(neg, b)
                if cp is not None and cn is not None:
                    if kind == 'lower':
                        ok = cp >= 1 and 0 < cn <= 1
                    else:
                        ok = 0 < cp <= 1 and cn >= 1
                    return ok, 'level = %g*bound for positive bounds, %g*bound for negative bounds' % (cp, cn)
    return None, 'clamp level %s has a form the rule does not recognise' % ast.unparse(level)



def ext_eval(e, env):
    """evaluation over the extended reals {'-inf', 'fin', '+inf', 'nan'} with signs, for `None -> +-inf` bounds:
    values are ('inf', sign) / ('fin', sign or 0) / 'nan'"""
    if isinstance(e, ast.Constant) and isinstance(e.value, (int, float)):
        return ('fin', (e.value > 0) - (e.value < 0))
    if isinstance(e, ast.Name):
        if e.id in env:
            return env[e.id]
        raise AlgebraError('unknown name %s' % e.id)
    if isinstance(e, ast.UnaryOp) and isinstance(e.op, ast.USub):
        v = ext_eval(e.operand, env)
        return v if v == 'nan' else (v[0], -v[1])
    if isinstance(e, ast.BinOp):
        a, b = ext_eval(e.left, env), ext_eval(e.right, env)
        if a == 'nan' or b == 'nan':
            return 'nan'
        if isinstance(e.op, (ast.Add, ast.Sub)):
            if isinstance(e.op, ast.Sub):
                b = (b[0], -b[1])
            if a[0] == 'inf' and b[0] == 'inf':
                return a if a[1] == b[1] else 'nan'
            if a[0] == 'inf':
                return a
            if b[0] == 'inf':
                return b
            return ('fin', a[1] if a[1] == b[1] else 0) if a[1] == b[1] else ('fin', None)
        if isinstance(e.op, ast.Mult):
            if 'inf' in (a[0], b[0]):
                if a[1] == 0 or b[1] == 0:
                    return 'nan'
                if a[1] is None or b[1] is None:
                    raise AlgebraError('sign of a factor unknown')
                return ('inf', a[1] * b[1])
            return ('fin', None if None in (a[1], b[1]) else a[1] * b[1])
        if isinstance(e.op, ast.Div):
            if b[0] == 'inf':
                return 'nan' if a[0] == 'inf' else ('fin', 0)
            if a[0] == 'inf':
                if b[1] in (0, None):
                    raise AlgebraError('sign of a divisor unknown')
                return ('inf', a[1] * b[1])
            return ('fin', None)
        raise AlgebraError('operator')
    if isinstance(e, ast.Call):
        last = _last(dotted(e.func))
        if last in ('abs', 'absolute', 'fabs') and len(e.args) == 1:
            v = ext_eval(e.args[0], env)
            return v if v == 'nan' else (v[0], abs(v[1]) if v[1] is not None else None)
        if last in ('asarray', 'array', 'float64', 'float') and e.args:
            return ext_eval(e.args[0], env)
        if last == 'where' and len(e.args) == 3:
            c = e.args[0]
            if isinstance(c, ast.Compare) and len(c.ops) == 1 and isinstance(c.comparators[0], ast.Constant) and c.comparators[0].value == 0:
                v = ext_eval(c.left, env)
                if v == 'nan' or v[1] is None:
                    raise AlgebraError('condition undecided')
                truth = {ast.Gt: v[1] > 0, ast.GtE: v[1] >= 0, ast.Lt: v[1] < 0, ast.LtE: v[1] <= 0}[type(c.ops[0])]
                return ext_eval(e.args[1] if truth else e.args[2], env)
            raise AlgebraError('where condition')
        raise AlgebraError('call %s' % last)
    raise AlgebraError('expression')


def check_perturb(rep, prog):
    """perturb_params by what it returns for every combination of present / absent bounds (abstract execution): the perturbed vector
    clamped with numpy.maximum against a level built from the lower bounds and with numpy.minimum against one built from the upper
    bounds, each level inside its bound for either sign and equal to the infinity that stands for an absent entry.  Independent of
    how the two clamps are written (two blocks, a table of (bound, infinity, clamp, factors) rows, named levels)."""
    from sa import miniexec as mx
    from sa import alpha as _alpha
    m = prog.mod('dadi.Misc')
    fn = prog.func('dadi.Misc', 'perturb_params')
    rep.saw_function(m.rel + ':perturb_params')
    known = _alpha.load_table().get('__params__', {}).get(m.rel)
    known = set(known) if known is not None else None
    found = {'lower': {}, 'upper': {}}
    bad = {'lower': [], 'upper': []}
    try:
        for has_l in (True, False):
            for has_u in (True, False):
                it = mx.Interp(prog, m, known_functions=known, symbolic_loops=True)
                args = {'params': mx.Sym('params'), 'fold': mx.Sym('fold'), 'lower_bound': mx.Sym('lower_bound', truth=True) if has_l else None,
                        'upper_bound': mx.Sym('upper_bound', truth=True) if has_u else None}
                paths = [p_ for p_ in it.run(fn, args) if p_[0][0] == 'return']
                if not paths:
                    raise mx.Undecidable('no returning path')
                for outcome, events, _d in paths:
                    v = outcome[1]
                    clamps = {}
                    while True:
                        c_ = mx.call_of(v, 'maximum') or mx.call_of(v, 'minimum')
                        if c_ is None or len(c_[0]) != 2:
                            break
                        kind = 'lower' if mx.call_of(v, 'maximum') is not None else 'upper'
                        clamps.setdefault(kind, []).append(c_[0][1])
                        v = c_[0][0]
                    for kind, has in (('lower', has_l), ('upper', has_u)):
                        lv = clamps.get(kind, [])
                        if has and len(lv) != 1:
                            bad[kind].append('%d clamps with numpy.%s when %s_bound is given' % (len(lv), 'maximum' if kind == 'lower' else 'minimum', kind))
                        if not has and lv:
                            bad[kind].append('clamped although %s_bound is None' % kind)
                        if has and len(lv) == 1:
                            found[kind].setdefault(mx.show(lv[0]), lv[0])
    except mx.Undecidable as e:
        for kind in ('lower', 'upper'):
            rep.ob('R-TPL', 'perturb_params %s_bound clamp' % kind, False, 'perturb_params is not recognised: %s' % e, m.rel, fn.lineno, what='perturbed values are clamped against %s_bound' % kind)
        return
    for kind, fnname in (('lower', 'maximum'), ('upper', 'minimum')):
        bname = kind + '_bound'
        levels = found[kind]
        # the array of bounds inside the level: asarray / array of [inf-or-bound for bound in <bound list>]
        elts, texts = set(), []
        for txt, lvl in levels.items():
            arrs = []

            def walk(x):
                if isinstance(x, mx.Sym) and x.struct:
                    c_ = mx.call_of(x, 'asarray') or mx.call_of(x, 'array')
                    if c_ is not None and c_[0] and isinstance(c_[0][0], mx.Sym) and c_[0][0].struct and c_[0][0].struct[0] == 'comp':
                        arrs.append(x)
                        return
                    for y in x.struct[1:]:
                        if isinstance(y, (tuple, list)):
                            for z in y:
                                walk(z)
                        elif isinstance(y, dict):
                            for z in y.values():
                                walk(z)
                        else:
                            walk(y)
            walk(lvl)
            t = txt
            for a in arrs:
                comp = (mx.call_of(a, 'asarray') or mx.call_of(a, 'array'))[0][0]
                if mx.show(comp.struct[2]) != bname:
                    bad[kind].append('level built from %s' % mx.show(comp.struct[2])[:30])
                elts.add(mx.show(comp.struct[1]).strip('()'))
                t = t.replace(mx.show(a), 'lb' if kind == 'lower' else 'ub')
            if not arrs:
                bad[kind].append('level %s does not contain the array of bounds' % txt[:50])
            texts.append(t)
        want_elts = {'-numpy.inf', 'bound'} if kind == 'lower' else {'numpy.inf', 'bound'}
        var = next(iter(e_ for e_ in elts if e_ not in ('-numpy.inf', 'numpy.inf', '-np.inf', 'np.inf')), 'bound')
        norm = {e_.replace('np.', 'numpy.') if 'inf' in e_ else 'bound' for e_ in elts}
        if levels and norm != want_elts:
            bad[kind].append('entries of the bound array are %s (an absent entry must become %s)' % (sorted(elts), '-inf' if kind == 'lower' else '+inf'))
        ok = not bad[kind] and len(set(texts)) == 1
        rep.ob('R-TPL', 'perturb_params %s clamp' % bname, bool(ok), ('clamp level %s' % texts[0][:100]) if ok else '; '.join(bad[kind][:2]) or 'levels %s' % texts[:2], m.rel, fn.lineno,
               what='perturbed values are clamped with %s against %s' % (fnname, bname))
        if ok:
            try:
                lvl0 = ast.parse(texts[0], mode='eval').body
            except SyntaxError:
                raise AnalysisError('perturb_params: clamp level %s cannot be read back' % texts[0][:60])
            verdict, why = clamp_level_inside(lvl0, kind)
            if verdict is None:
                raise AnalysisError('perturb_params: ' + why)
            rep.ob('R-SIGN', 'perturb_params %s clamp' % bname, verdict, why, m.rel, fn.lineno, what='clamp level is inside the bounds for either sign of the bound')
            bvar = [x for x in names_in(lvl0) if x in ('lb', 'ub', bname)]
            try:
                v = ext_eval(lvl0, {bv: ('inf', -1 if kind == 'lower' else 1) for bv in bvar})
                oki = v == ('inf', -1 if kind == 'lower' else 1)
                det = 'level at an absent bound evaluates to %s' % (v,)
            except AlgebraError as e_:
                oki, det = False, 'level not evaluable at an infinite bound: %s' % e_
            rep.ob('R-DOM', 'perturb_params %s clamp at an absent bound' % bname, oki, det, m.rel, fn.lineno,
                   what='None / infinite bounds leave the perturbed value unchanged (the level is the same infinity, never nan)')


def run(rep, prog, tier):
    m = prog.mod(INF)
    nm = prog.mod('dadi.NLopt_mod')
    rep.saw_file(m.rel)
    rep.saw_file(nm.rel)
    for name in SCIPY_WRAPPERS:
        fn = prog.func(INF, name)
        generic.rule_name(rep, prog, m, fn)
        generic.rule_def(rep, m, fn, exceptions={('optimize_cons', 'bnds'): 'guard (lower_bound is not None) and (upper_bound is not None) '
                                                 'is a tautology: both were rebound to arrays by _project_params_down just above'})
        generic.rule_sig(rep, prog, m, fn)
        generic.rule_extsig(rep, m, fn)          # keywords exist in the installed scipy (read from /venv, not imported)
        check_entry(rep, prog, m, fn, [{}])
        check_args_tuple(rep, prog, m, fn)
        check_bound_shapes(rep, prog, m, fn, [{}])
    optf = prog.func('dadi.NLopt_mod', 'opt')
    generic.rule_name(rep, prog, nm, optf)
    generic.rule_def(rep, nm, optf)
    generic.rule_sig(rep, prog, nm, optf)
    check_entry(rep, prog, nm, optf, [{'log_opt': False}, {'log_opt': True}])
    check_bound_shapes(rep, prog, nm, optf, [{'log_opt': False}, {'log_opt': True}])
    # nested objective of opt: passes a natural-space vector to _object_func in both worlds
    f = prog.func('dadi.NLopt_mod', 'opt.f')
    generic.rule_sig(rep, prog, nm, f)
    for lo in (False, True):
        got = []

        def rule(an, e, args, kws, s):
            fnm = dotted(e.func) or ''
            if _last(fnm) == 'exp':
                return {'log': 'nat'}.get(args[0] if args else None, 'bad:exp(%s)' % (args[0] if args else None))
            if _last(fnm) == 'log':
                return {'nat': 'log'}.get(args[0] if args else None, 'bad')
            if _last(fnm) == '_object_func':
                got.append((e, args[0] if args else None))
            return None
        # what the nested objective closes over: the tags of opt's locals where f is defined (a function-valued local such as
        # `from_opt_scale = np.exp` is visible inside f)
        closure = {}

        def observe(node, _t, state, closure=closure):
            if node is f:
                closure.update({k_: v_ for k_, v_ in state.items() if v_ is not None})
        try:
            run_tags(optf, seeds={p_: 'nat' for p_ in ('p0', 'lower_bound', 'upper_bound', 'fixed_params') if p_ in func_params(optf)}, world={'log_opt': lo},
                     call_rule=space_call_rule(prog, nm, lambda node: None, []), fnref_rule=make_fnref_rule(prog, nm), observe=observe)
        except AnalysisError:
            pass
        seeds_f = {k_: v_ for k_, v_ in closure.items() if isinstance(v_, FnRef)}
        seeds_f[positional_params(f)[0]] = 'log' if lo else 'nat'

        def rule_f(an, e, args, kws, s, rule=rule):
            r_ = rule(an, e, args, kws, s)
            if r_ is None and _last(dotted(e.func) or '') not in ('exp', 'log', '_object_func'):
                # a helper of the module (the identity transform, say): its summary
                return space_call_rule(prog, nm, lambda node: None, [])(an, e, args, kws, s)
            return r_
        run_tags(f, seeds=seeds_f, world={'log_opt': lo}, call_rule=rule_f, fnref_rule=make_fnref_rule(prog, nm))
        if not got:
            raise AnalysisError('anchor vanished: opt.f does not call _object_func')
        for e, t in got:
            rep.ob('R-SPACE', 'opt.f[log_opt=%s] objective' % lo, t == 'nat', '_object_func receives a vector tagged %r' % (t,), nm.rel, e.lineno,
                   what='objective is evaluated at natural-space parameters')
            b, problems = bind_call(prog.func(INF, '_object_func'), e)
            for k in ('data', 'model_func', 'pts', 'multinom', 'func_args', 'func_kwargs', 'fixed_params', 'verbose'):
                v = b.get(k)
                rep.ob('R-ARGS', 'opt.f call', v is not None and ast.unparse(v) == k, 'parameter %s receives %s' % (k, ast.unparse(v) if v is not None else 'nothing'),
                       nm.rel, e.lineno, what='slot ' + k)
    # sign: opt maximises -_object_func
    negs = [n for n in own_nodes(f) if isinstance(n, ast.Return)]
    oks = len(negs) == 1 and isinstance(negs[0].value, ast.UnaryOp) and isinstance(negs[0].value.op, ast.USub)
    setmax = any(isinstance(n, ast.Call) and _last(dotted(n.func)) == 'set_max_objective' for n in own_nodes(optf))
    setmin = any(isinstance(n, ast.Call) and _last(dotted(n.func)) == 'set_min_objective' for n in own_nodes(optf))
    rep.ob('R-SIGN', 'opt objective sign', (oks and setmax and not setmin) or ((not oks) and setmin and not setmax),
           'f returns %s and opt uses %s' % (ast.unparse(negs[0].value)[:60] if negs else '?', 'set_max_objective' if setmax else 'set_min_objective'),
           nm.rel, f.lineno, what='likelihood is maximised')
    for name in ('_object_func', '_object_func_resid'):
        fn = prog.func(INF, name)
        generic.rule_name(rep, prog, m, fn)
        generic.rule_def(rep, m, fn)
        check_objective(rep, prog, m, fn)
    for name in ('_object_func_log', '_object_func_log_resid'):
        fn = prog.func(INF, name)
        sp = objective_space(prog, m, fn)
        rep.ob('R-SPACE', name, sp == 'log', 'objective expects %s-space parameters' % sp, m.rel, fn.lineno, what='log objective exponentiates its argument')
    check_projection(rep, prog, m)
    check_perturb(rep, prog)
    rep.floor('R-SPACE', 40)
    rep.floor('R-FLOW', 25)
    rep.floor('R-ARGS', 100)
    rep.floor('R-DOM', 4)
