"""C14 - Spectra survive file and pickle round trips (DESIGN.md C14): R-IO handle typestate + writer/reader tables."""
import ast, re
from sa import generic
from sa.extract import single_assignments, inline, names_in
from sa.srcmodel import own_nodes, dotted, positional_params, bind_call
from sa.tags import TagAnalysis, run_tags, MIXED
from sa.report import AnalysisError

EXPLANATION = (
    "Decides, from the source of Spectrum.to_file/from_file, Numerics.array_to_file/array_from_file and the copyreg pickling "
    "pair: (1) R-IO handle typestate - on every path (plain and .gz) each file handle is opened in a mode whose kind (text or "
    "bytes) matches every str/bytes operand written to it or compared with a line read from it; (2) writer/reader table "
    "agreement - the folded/unfolded tokens, the quoting of labels (written as \"%s\", parsed by splitting on the quote "
    "character so that labels may contain spaces), the order of the header, data and mask lines, count=prod(shape), the "
    "optional mask line of the pre-1.3 format under foldmaskinfo=False, mask written as integers with 1 = masked and handed "
    "back as the mask, data_folded/pop_ids wiring; (3) the tuple produced by Spectrum_pickler matches Spectrum_unpickler's "
    "parameters position by position and the unpickler rebuilds the Spectrum with mask_corners=False and check_folding=False. "
    "Value equality to the written precision and non-finite values are not decided.")
TECHNIQUE = "file-handle mode typestate + writer/reader field-table agreement"
DECLINED = ["numeric equality of values to the written precision", "round trip of non-finite values", "behaviour of numpy.savetxt/fromstring"]

SM = 'dadi.Spectrum_mod'
NUM = 'dadi.Numerics'


def _last(n):
    return (n or '').split('.')[-1]


def mode_kind(call):
    """text / bytes for open(...) and gzip.open(...) from the literal mode"""
    fn = dotted(call.func) or ''
    mode = None
    if len(call.args) > 1:
        mode = call.args[1]
    for k in call.keywords:
        if k.arg == 'mode':
            mode = k.value
    if mode is None:
        m = 'rb' if fn.startswith('gzip.') else 'r'
    elif isinstance(mode, ast.Constant) and isinstance(mode.value, str):
        m = mode.value
    else:
        return None
    if 'b' in m:
        return 'bytes'
    if 't' in m:
        return 'text'
    return 'bytes' if fn.startswith('gzip.') else 'text'


def literal_kind(an, e, s):
    if isinstance(e, ast.Constant):
        if isinstance(e.value, str):
            return 'text'
        if isinstance(e.value, bytes):
            return 'bytes'
        return None
    if isinstance(e, ast.BinOp) and isinstance(e.op, (ast.Mod, ast.Add)):
        return literal_kind(an, e.left, s) or literal_kind(an, e.right, s)
    if isinstance(e, ast.JoinedStr):
        return 'text'
    if isinstance(e, ast.Attribute) and dotted(e) == 'os.linesep':
        return 'text'
    return an.ev(e, s)


class IOAnalysis(TagAnalysis):
    def const_tag(self, e):
        if isinstance(e.value, str):
            return 'text'
        if isinstance(e.value, bytes):
            return 'bytes'
        return None


def io_check(rep, m, fn, min_uses):
    q = fn._qualname
    uses = []

    def call_rule(an, e, args, kws, s):
        name = dotted(e.func) or ''
        if name in ('open', 'gzip.open', 'io.open', 'bz2.open'):
            k = mode_kind(e)
            if k is None:
                raise AnalysisError('%s: file mode of %s is not a literal' % (q, ast.unparse(e)))
            return 'handle:' + k
        if isinstance(e.func, ast.Attribute):
            recv = an.ev(e.func.value, s)
            meth = e.func.attr
            if isinstance(recv, str) and recv.startswith('handle:'):
                hk = recv.split(':')[1]
                if meth in ('readline', 'read'):
                    return hk
                if meth == 'write' and e.args:
                    ak = literal_kind(an, e.args[0], s)
                    if ak in ('text', 'bytes'):
                        uses.append((e, 'write', hk, ak))
                    return None
                if meth == 'readlines':
                    return hk
                return None
            if recv == MIXED and meth in ('readline', 'read', 'readlines'):
                return MIXED
            if recv == MIXED and meth == 'write' and e.args:
                ak = literal_kind(an, e.args[0], s)
                if ak in ('text', 'bytes'):
                    uses.append((e, 'write', MIXED, ak))
                return None
            if meth in ('startswith', 'endswith', 'split', 'strip', 'rstrip', 'lstrip', 'replace', 'find', 'partition') and recv in ('text', 'bytes', MIXED):
                if e.args:
                    ak = literal_kind(an, e.args[0], s)
                    if ak in ('text', 'bytes'):
                        uses.append((e, meth, recv, ak))
                return recv
            if meth in ('strip', 'split', 'rstrip', 'lstrip'):
                return recv
        return None

    def jt(a, b):
        return a if a == b else (b if a is None else (a if b is None else MIXED))
    an, _ = run_tags(fn, call_rule=call_rule, analysis_class=IOAnalysis)
    # a handle that is text on one branch and bytes on the other joins to MIXED: every use through it fails
    for (e, what, hk, ak) in uses:
        ok = hk == ak
        rep.ob('R-IO', '%s %s' % (q, what), ok,
               '%s operand of kind %s on a %s handle/line' % (ast.unparse(e)[:70], ak, hk if hk != MIXED else 'text-or-bytes (differs between the plain and .gz branches)'),
               m.rel, e.lineno, what='%s %s' % (what, ast.unparse(e.args[0])[:40] if e.args else ''))
    # also: handles opened in the two branches of the .gz test must be of the same kind
    opens = [n for n in own_nodes(fn) if isinstance(n, ast.Call) and dotted(n.func) in ('open', 'gzip.open')]
    kinds = {mode_kind(n) for n in opens}
    if not opens and q == 'Spectrum.to_file' and WRITER.get('verdicts') is not None:
        # the opener is chosen first and called once (opener = gzip.open if ... else open): both worlds by abstract execution
        v_ = WRITER['verdicts']['open']
        rep.ob('R-IO', '%s open modes' % q, v_[0], v_[1], m.rel, fn.lineno, what='every branch opens the file in text mode')
        return
    rep.ob('R-IO', '%s open modes' % q, len(kinds) == 1 and kinds == {'text'},
           'handles are opened as %s' % ', '.join('%s -> %s' % (ast.unparse(n), mode_kind(n)) for n in opens), m.rel,
           opens[0].lineno if opens else fn.lineno, what='every branch opens the file in text mode')
    if len(uses) < min_uses and all(o.ok for o in rep.obls):
        raise AnalysisError('%s: only %d typed handle uses found (expected >= %d)' % (q, len(uses), min_uses))
    return uses


def str_consts(node):
    return [n.value for n in ast.walk(node) if isinstance(n, ast.Constant) and isinstance(n.value, str)]


WRITER = {}


def writer_by_execution(prog, m):
    """What Spectrum.to_file sends to the file, as a token stream, in every world of (.gz or not, foldmaskinfo, folded, labels or none,
    one comment): abstract execution with a concrete two-dimensional shape, two symbolic labels and one symbolic comment.  String
    formats are expanded into literal pieces and conversions, adjacent literals joined, so `for d in shape: write('%i ' % d)` and
    `write(('%i ' * len(shape)) % shape)` are the same stream.  Returns {obligation: (ok, detail)} or None when the function cannot be
    followed."""
    import itertools
    from sa import miniexec as mx
    from sa import alpha as _alpha
    to = prog.func(SM, 'Spectrum.to_file')
    known = _alpha.load_table().get('__params__', {}).get(m.rel)
    known = set(known) if known is not None else None
    spec_rx = re.compile(r'%(?:%|\.?\d*[a-zA-Z])')

    def pieces_of(v):
        """token list of one written value"""
        if isinstance(v, str):
            return [('lit', v)]
        if isinstance(v, mx.Sym) and v.struct and v.struct[0] == 'binop' and v.struct[1] == '%' and isinstance(v.struct[2], str):
            fmt, val = v.struct[2], v.struct[3]
            vals = list(val) if isinstance(val, tuple) else [val]
            out, pos, k = [], 0, 0
            for mm in spec_rx.finditer(fmt):
                if mm.start() > pos:
                    out.append(('lit', fmt[pos:mm.start()]))
                if mm.group(0) == '%%':
                    out.append(('lit', '%'))
                else:
                    if k >= len(vals):
                        raise mx.Undecidable('format %r with %d values' % (fmt, len(vals)))
                    out.append(('conv', mm.group(0), mx.show(vals[k])))
                    k += 1
                pos = mm.end()
            if pos < len(fmt):
                out.append(('lit', fmt[pos:]))
            if k != len(vals):
                raise mx.Undecidable('format %r with %d values' % (fmt, len(vals)))
            return out
        if isinstance(v, mx.Sym) and v.struct and v.struct[0] == 'binop' and v.struct[1] == '+':
            return pieces_of(v.struct[2]) + pieces_of(v.struct[3])
        return [('val', mx.show(v))]

    def flat_row(v):
        """the array written on one line, in C order: RAVEL(<array>) for ravel / flatten / reshape(-1) / reshape(1, -1), method or function form"""
        for nm_ in ('ravel', 'flatten'):
            rec = mx.method_call(v, nm_)
            if rec is not None and mx.show(rec) not in ('numpy', 'np') and not v.struct[2] and not v.struct[3]:
                return 'RAVEL(%s)' % mx.show(rec)
            c_ = mx.call_of(v, nm_)
            if c_ is not None and len(c_[0]) == 1 and not c_[1] and (mx.method_call(v, nm_) is None or mx.show(mx.method_call(v, nm_)) in ('numpy', 'np')):
                return 'RAVEL(%s)' % mx.show(c_[0][0])
        rec = mx.method_call(v, 'reshape')
        if rec is not None and mx.show(rec) not in ('numpy', 'np') and not v.struct[3]:
            a_ = v.struct[2][0] if len(v.struct[2]) == 1 and isinstance(v.struct[2][0], (tuple, list)) else v.struct[2]
            if tuple(a_) in ((-1,), (1, -1)):
                return 'RAVEL(%s)' % mx.show(rec)
        return mx.show(v)

    def join(tokens):
        out = []
        for t_ in tokens:
            if t_[0] == 'lit' and out and out[-1][0] == 'lit':
                out[-1] = ('lit', out[-1][1] + t_[1])
            elif t_ != ('lit', ''):
                out.append(t_)
        return out
    res = {k: [True, []] for k in ('open', 'folding', 'labels', 'data', 'mask', 'order', 'comments')}
    n_worlds = 0
    try:
        for gz, fmi, folded, labelled in itertools.product((False, True), repeat=4):
            fname = 'spectrum.fs.gz' if gz else 'spectrum.fs'
            data = mx.Sym('self.data', attrs={'shape': (mx.Sym('n0'), mx.Sym('n1'))})
            selfv = mx.Sym('self', truth=True, attrs={'data': data, 'folded': folded, 'mask': mx.Sym('self.mask'),
                                                       'pop_ids': [mx.Sym('label0'), mx.Sym('label1')] if labelled else None, 'shape': (mx.Sym('n0'), mx.Sym('n1'))})
            it = mx.Interp(prog, m, known_functions=known)
            paths = [p_ for p_ in it.run(to, {'self': selfv, 'fname': fname, 'precision': mx.Sym('precision'), 'comment_lines': [mx.Sym('comment0')], 'foldmaskinfo': fmi}) if p_[0][0] == 'return']
            if len(paths) != 1:
                raise mx.Undecidable('%d returning paths' % len(paths))
            n_worlds += 1
            events = paths[0][1]
            tag = '%s foldmaskinfo=%s folded=%s %s' % ('.gz' if gz else 'plain', fmi, folded, 'labels' if labelled else 'no labels')
            opens = [e for e in events if e[0] == 'call' and e[1] in ('open', 'gzip.open')]
            if len(opens) != 1 or opens[0][1] != ('gzip.open' if gz else 'open') or mx.show(opens[0][2][0]) != repr(fname) or \
                    (opens[0][2][1] if len(opens[0][2]) > 1 else opens[0][3].get('mode', 'r')) not in (('wt',) if gz else ('w', 'wt')):
                res['open'][0] = False
                res['open'][1].append('%s: %s' % (tag, [(e[1], [mx.show(a) for a in e[2]]) for e in opens]))
            stream = []
            for e in events:
                if e[0] != 'call':
                    continue
                if e[1].endswith('.write') and len(e[2]) == 1 and ('open(' in e[1]):
                    stream += pieces_of(e[2][0])
                elif e[1].split('.')[-1] == 'savetxt':
                    row = e[2][1] if len(e[2]) > 1 else e[3].get('X')
                    row = row[0] if isinstance(row, (list, tuple)) and len(row) == 1 else row
                    fmt = e[3].get('fmt')
                    stream.append(('line', flat_row(row), ''.join(('{%s}' % t_[2]) if t_[0] == 'conv' else t_[1] if t_[0] == 'lit' else '{%s}' % t_[1] for t_ in join(pieces_of(fmt))) if fmt is not None else None,
                                   mx.show(e[3].get('delimiter'))))
                elif e[1].endswith('.close') and 'open(' in e[1]:
                    stream.append(('close',))
            stream = join(stream)
            want = [('lit', '# '), ('val', 'comment0.strip()'), ('lit', '\n'), ('conv', '%i', 'n0'), ('lit', ' '), ('conv', '%i', 'n1'), ('lit', ' ')]
            if fmi:
                want.append(('lit', 'folded' if folded else 'unfolded'))
                if labelled:
                    want += [('lit', ' "'), ('conv', '%s', 'label0'), ('lit', '" "'), ('conv', '%s', 'label1'), ('lit', '"')]
            want.append(('lit', '\n'))
            want.append(('line', 'RAVEL(self.data)', '%.{precision}g', "' '"))
            if fmi:
                want.append(('line', 'RAVEL(numpy.asarray(self.mask, int))', '%d', "' '"))
            want.append(('close',))
            want = join(want)
            if stream != want:
                # attribute the difference to the first token that differs
                k = next((i_ for i_, (a_, b_) in enumerate(zip(stream, want)) if a_ != b_), min(len(stream), len(want)))
                got_t = stream[k] if k < len(stream) else ('nothing',)
                exp_t = want[k] if k < len(want) else ('nothing',)
                kind = 'comments' if k < 3 else 'data' if exp_t[:2] == ('line', 'RAVEL(self.data)') or got_t[:2] == ('line', 'RAVEL(self.data)') else \
                    'mask' if 'mask' in str(exp_t) + str(got_t) else 'labels' if 'label' in str(exp_t) + str(got_t) else 'folding' if 'folded' in str(exp_t) + str(got_t) else 'order'
                res[kind][0] = False
                res[kind][1].append('%s: token %d is %s, expected %s' % (tag, k, got_t, exp_t))
    except mx.Undecidable:
        return None
    return {k: (v[0], '; '.join(v[1][:2]) if v[1] else 'as specified in all %d worlds (token stream compared)' % n_worlds) for k, v in res.items()}


def check_tables(rep, prog, m):
    to = prog.func(SM, 'Spectrum.to_file')
    fr = prog.func(SM, 'Spectrum.from_file')
    rel = m.rel
    # ---- writer: ordered list of output events ---------------------------------------------------
    events = []

    def walk(stmts, guard):
        for st in stmts:
            if isinstance(st, ast.If):
                g = ast.unparse(st.test)
                walk(st.body, guard + [g])
                walk(st.orelse, guard + ['not (' + g + ')'])
            elif isinstance(st, ast.For):
                walk(st.body, guard + ['for ' + ast.unparse(st.target) + ' in ' + ast.unparse(st.iter)])
            elif isinstance(st, ast.Expr) and isinstance(st.value, ast.Call):
                c = st.value
                nm = dotted(c.func) or ''
                if nm.endswith('.write') and c.args:
                    events.append(('write', c.args[0], guard, st))
                elif _last(nm) == 'savetxt':
                    events.append(('savetxt', c, guard, st))
    walk(to.body, [])
    if len(events) < 7:
        raise AnalysisError('anchor vanished: fewer than 7 output events in Spectrum.to_file')
    # folded token polarity
    tok = [(ev, g) for (k, ev, g, st) in events if k == 'write' and isinstance(ev, ast.Constant) and ev.value in ('folded', 'unfolded')]
    ok = len(tok) == 2
    det = []

    def guard_truth(g, env):
        # conjunction of the guards of an event under an assignment of the two flags (None: depends on something else)
        def ev_(e):
            t_ = ast.unparse(e)
            if t_ in env:
                return env[t_]
            if isinstance(e, ast.UnaryOp) and isinstance(e.op, ast.Not):
                v = ev_(e.operand)
                return None if v is None else not v
            if isinstance(e, ast.BoolOp):
                vs = [ev_(v) for v in e.values]
                if isinstance(e.op, ast.And):
                    return False if any(v is False for v in vs) else (None if any(v is None for v in vs) else True)
                return True if any(v is True for v in vs) else (None if any(v is None for v in vs) else False)
            return None
        res = True
        for x in g:
            if x.startswith('for '):
                continue
            v = ev_(ast.parse(x, mode='eval').body)
            if v is False:
                return False
            if v is None:
                res = None
        return res
    for M in (False, True):
        for F in (False, True):
            written = [ev.value for ev, g in tok if guard_truth(g, {'foldmaskinfo': M, 'self.folded': F}) is not False]
            want = [] if not M else (['folded'] if F else ['unfolded'])
            if written != want:
                ok = False
                det.append('foldmaskinfo=%s folded=%s writes %s' % (M, F, written))
    for ev, g in tok:
        det.append('%r under %s' % (ev.value, ' and '.join(g)))
    W = WRITER.get('verdicts')
    if W is not None:
        ok, det = W['folding'][0], [W['folding'][1]]
    rep.ob('R-TPL', 'to_file folding token', ok, '; '.join(det), rel, to.lineno, what="writes 'folded' iff self.folded, only with foldmaskinfo")
    # reader: sentinel set and flag
    sent = None
    flag = None
    for n in own_nodes(fr):
        if isinstance(n, ast.Compare) and isinstance(n.ops[0], (ast.NotIn, ast.In)) and isinstance(n.comparators[0], (ast.List, ast.Tuple, ast.Set)) \
                and str_consts(n.comparators[0]) and (sent is None or isinstance(n.ops[0], ast.NotIn) or isinstance(getattr(n, '_parent', None), (ast.While, ast.If, ast.BoolOp))):
            # the test that ends the run of dimensions: `token not in [...]` of a while loop, or `token in (...)` guarding a break
            sent = set(str_consts(n.comparators[0]))
        if isinstance(n, ast.Assign) and isinstance(n.targets[0], ast.Name) and n.targets[0].id == 'folded' and isinstance(n.value, ast.Compare):
            flag = n.value
    okr = sent == {'folded', 'unfolded'} and flag is not None and isinstance(flag.ops[0], ast.Eq) and str_consts(flag) == ['folded']
    detr = 'sentinel tokens %s; folded = %s' % (sorted(sent) if sent else None, ast.unparse(flag) if flag is not None else None)
    # what reaches the constructor (role flow, sa/roles.py): used when the statements are not written the way the rule above follows
    from sa import roles as RF

    def reader_source(e, ev):
        if isinstance(e, ast.Compare) and len(e.ops) == 1 and isinstance(e.comparators[0], ast.Constant) and isinstance(e.comparators[0].value, str) and isinstance(e.ops[0], (ast.Eq, ast.NotEq)):
            return {'token %s %s' % ('==' if isinstance(e.ops[0], ast.Eq) else '!=', e.comparators[0].value)}
        if isinstance(e, ast.Constant) and (e.value is None or isinstance(e.value, bool)):
            return {repr(e.value)}
        if isinstance(e, ast.Subscript) and isinstance(e.value, ast.Call) and isinstance(e.value.func, ast.Attribute) and e.value.func.attr == 'split' and str_consts(e.value) == ['"']:
            return {'quoted fields' if isinstance(e.slice, ast.Slice) and ast.unparse(e.slice) == '1::2' else 'fields [%s] of the split at quotes' % ast.unparse(e.slice)}
        if isinstance(e, ast.Call) and isinstance(e.func, ast.Attribute) and e.func.attr == 'split' and not e.args and not e.keywords:
            return {'whitespace-separated fields'}
        return None
    rfr = RF.RoleFlow(fr, reader_source).run()
    r_folded = rfr.callargs.get(('Spectrum', 'data_folded'))
    r_labels = rfr.callargs.get(('Spectrum', 'pop_ids'))
    roles_folded = set(RF.flat(r_folded)) if r_folded is not None else None
    roles_labels = set(RF.flat(r_labels)) if r_labels is not None else None
    if not okr and flag is None and roles_folded is not None:
        good = [{'token == folded', 'False'}, {'token != unfolded', 'False'}]
        if sent == {'folded', 'unfolded'} and roles_folded in good:
            okr, detr = True, 'sentinel tokens %s; the folding flag handed to the constructor is made of %s' % (sorted(sent), sorted(roles_folded))
        elif roles_folded and not any(roles_folded <= g_ for g_ in good):
            detr = 'the folding flag handed to the constructor is made of %s' % sorted(roles_folded)
        else:
            detr = 'folding flag not found in the form the rule follows (%s)' % sorted(roles_folded)
    rep.ob('R-TPL', 'from_file folding token', bool(okr), detr,
           rel, fr.lineno, what="reads ints up to 'folded'/'unfolded'; folded iff token == 'folded'")
    old = [n for n in own_nodes(fr) if isinstance(n, ast.If) and {'folded', 'unfolded'} <= set(str_consts(n.test)) and n.orelse and not isinstance(getattr(n, '_parent', None), (ast.For, ast.While))]

    def plain_assignments(stmts):
        out = {}
        for x in stmts:
            if isinstance(x, ast.Assign) and len(x.targets) == 1:
                t = x.targets[0]
                if isinstance(t, ast.Name):
                    out[t.id] = ast.unparse(x.value)
                elif isinstance(t, ast.Tuple) and isinstance(x.value, ast.Tuple) and len(t.elts) == len(x.value.elts):
                    for a, b in zip(t.elts, x.value.elts):
                        if isinstance(a, ast.Name):
                            out[a.id] = ast.unparse(b)
        return out
    okold = False
    if old:
        # the branch for a header without folding token: by the form of the test, the body (`... not in ...`, isdisjoint) or the else
        tt = ast.unparse(old[0].test)
        neg = ('not in' in tt or 'isdisjoint' in tt) and not tt.startswith('not ')
        br = plain_assignments(old[0].body if neg else old[0].orelse)
        okold = br.get('folded') == 'False' and br.get('pop_ids') == 'None'
    detold = 'header without folding token: folded=False, pop_ids=None' + ('' if old else ': the test for the folding token was not found')
    if not okold and roles_folded is not None and roles_labels is not None:
        # by what reaches the constructor: besides the values read from the header, the constants False (folding) and None (labels)
        if 'False' in roles_folded and 'None' in roles_labels and 'True' not in roles_folded:
            okold, detold = True, 'a header without folding token gives folded=False and pop_ids=None (constants that reach the constructor: %s / %s)' % (sorted(roles_folded), sorted(roles_labels))
        elif 'True' in roles_folded:
            detold = 'a constant True reaches the folding flag of the constructor'
        else:
            detold = 'pre-1.3 branch not found in the form the rule follows (%s / %s)' % (sorted(roles_folded), sorted(roles_labels))
    rep.ob('R-TPL', 'from_file pre-1.3 header', okold, detold, rel,
           old[0].lineno if old else fr.lineno, what='pre-1.3 header handled')
    # labels: written quoted, parsed by splitting on the quote character
    lab = [ev for (k, ev, g, st) in events if k == 'write' and isinstance(ev, ast.BinOp) and isinstance(ev.op, ast.Mod)
           and isinstance(ev.left, ast.Constant) and '"' in str(ev.left.value)]
    okw = len(lab) == 1 and lab[0].left.value.count('"') == 2 and '"%s"' in lab[0].left.value and lab[0].left.value[0] in ' \t'
    if W is not None:
        okw = W['labels'][0]
    rep.ob('R-TPL', 'to_file labels', okw, W['labels'][1] if W is not None else 'labels written with format %r' % (lab[0].left.value if lab else None), rel, lab[0].lineno if lab else to.lineno,
           what='each label is written as separator + "label"')
    pr = [n for n in own_nodes(fr) if isinstance(n, ast.Assign) and ast.unparse(n.targets[0]) == 'pop_ids' and isinstance(n.value, ast.Subscript)]
    okp = False
    if pr:
        v = pr[0].value
        okp = isinstance(v.value, ast.Call) and _last(dotted(v.value.func)) == 'split' and str_consts(v.value) == ['"'] \
            and isinstance(v.slice, ast.Slice) and ast.unparse(v.slice) == '1::2' and ast.unparse(v.value.func.value) == 'line'
    detp = 'labels parsed by %s' % (ast.unparse(pr[0].value) if pr else None)
    if not okp and not pr and roles_labels is not None:
        if roles_labels == {'quoted fields', 'None'}:
            okp, detp = True, 'the labels handed to the constructor are the odd fields of the header split at the quote character (or None)'
        elif any(r_.startswith('fields [') or r_ == 'whitespace-separated fields' for r_ in roles_labels):
            detp = 'labels are made of %s (a label that contains a space is cut)' % sorted(roles_labels)
        else:
            detp = 'label parsing not found in the form the rule follows (%s)' % sorted(roles_labels)
    rep.ob('R-TPL', 'from_file labels', okp, detp, rel, pr[0].lineno if pr else fr.lineno,
           what='labels = odd fields of the header split on the quote character (spaces allowed inside labels)')
    # line order: header newline, then data savetxt, then mask savetxt under foldmaskinfo
    seen_lines = set()
    order = []
    for (k, ev, g, st) in events:
        if k == 'write' and isinstance(ev, ast.Constant) and ev.value == '\n' and not any(x.startswith('for ') for x in g):
            order.append('header-end')
        elif k == 'savetxt':
            src = ast.unparse(ev.args[1]) if len(ev.args) > 1 else ''
            order.append('mask' if 'mask' in src else 'data' if 'data' in src else '?')
            if 'mask' in src:
                okm = 'foldmaskinfo' in ' '.join(g) and 'int' in src and 'not' not in src and '~' not in src
                fmts = [k2.value for k2 in ev.keywords if k2.arg == 'fmt']
                okm = okm and fmts and isinstance(fmts[0], ast.Constant) and fmts[0].value in ('%d', '%i')
                if W is not None:
                    okm = W['mask'][0]
                seen_lines.add('mask')
                rep.ob('R-TPL', 'to_file mask line', bool(okm), W['mask'][1] if W is not None else 'mask written by %s' % ast.unparse(ev)[:90], rel, ev.lineno,
                       what='mask written as integers (1 = masked), only with foldmaskinfo')
            else:
                okd = ('ravel' in src or 'reshape(1, -1)' in src.replace('(1,-1)', '(1, -1)')) and 'order' not in src and '.T' not in src and 'transpose' not in src and not g
                fmts = [k2.value for k2 in ev.keywords if k2.arg == 'fmt']
                okd = okd and fmts and 'precision' in names_in(fmts[0])
                if W is not None:
                    okd = W['data'][0]
                seen_lines.add('data')
                rep.ob('R-TPL', 'to_file data line', bool(okd), W['data'][1] if W is not None else 'data written by %s' % ast.unparse(ev)[:90], rel, ev.lineno,
                       what='data written in C order on one line with the requested precision, unconditionally')
    # (a header end written in each of two exclusive branches is one header end)
    order = [x for i_, x in enumerate(order) if i_ == 0 or x != order[i_ - 1]]
    if W is not None:
        # (when the two savetxt calls are not written out as two statements, the obligations above were not met: record them here)
        for k_ in ('data', 'mask'):
            if k_ not in seen_lines:
                rep.ob('R-TPL', 'to_file %s line' % k_, W[k_][0], W[k_][1], rel, to.lineno, what='%s line' % k_)
    rep.ob('R-TPL', 'to_file line order', W['order'][0] if W is not None else order == ['header-end', 'data', 'mask'], W['order'][1] if W is not None else 'line-producing events in order: %s' % order, rel, to.lineno,
           what='header, data line, mask line')
    # reader consumes in the same order: readline (header loop), readline (data), readline (mask)
    sing_r = single_assignments(fr)

    def decode_calls(var):
        """(fromstring-like calls, reshape calls) in the assignments to var"""
        fs_, rs_ = [], []
        for n in own_nodes(fr):
            if isinstance(n, ast.Assign) and ast.unparse(n.targets[0]) == var:
                for c in ast.walk(n.value):
                    if isinstance(c, ast.Call) and _last(dotted(c.func)) in ('fromstring', 'fromfile', 'loadtxt'):
                        fs_.append(c)
                    if isinstance(c, ast.Call) and isinstance(c.func, ast.Attribute) and c.func.attr == 'reshape':
                        rs_.append(c)
        return fs_, rs_
    # which line each readline() call consumes: by the name it is bound to, or by the array whose text it is
    text_of = {}
    for var in ('data', 'mask'):
        for c in decode_calls(var)[0]:
            if c.args and isinstance(c.args[0], ast.Name):
                text_of[c.args[0].id] = var
    reads = []
    for n in own_nodes(fr):
        if isinstance(n, ast.Call) and isinstance(n.func, ast.Attribute) and n.func.attr == 'readline':
            par = n
            role = None
            while getattr(par, '_parent', None) is not None and not isinstance(par, ast.stmt):
                par = par._parent
            if isinstance(par, ast.Assign):
                role = ast.unparse(par.targets[0])
                role = {'maskline': 'mask'}.get(role, text_of.get(role, role))
            reads.append((n.lineno, role))
    reads.sort(key=lambda x: x[0])
    roles = [r for _, r in reads]
    okro = roles[:2] == ['line', 'line'] and roles[2:] == ['data', 'mask']
    unfollowed = None in roles or len(roles) != 4 or any(r_ not in ('line', 'data', 'mask') for r_ in roles)
    rep.ob('R-TPL', 'from_file line order', okro, ('readline() results consumed, in order, as %s' % roles) + (' (a read whose use the rule does not follow: the order of consumption is not recognised)' if unfollowed and not okro else ''),
           rel, fr.lineno, what='header, data line, mask line')
    # data / mask decode: count=prod(shape), reshape(*shape); mask optional
    for var in ('data', 'mask'):
        fs_, rs_ = decode_calls(var)
        okc = False
        if fs_:
            kw = {k.arg: inline(k.value, sing_r) for k in fs_[0].keywords}
            okc = 'count' in kw and ast.unparse(kw['count']).replace('np.', 'numpy.') == 'numpy.prod(shape)' and 'sep' in kw
        okc = okc and bool(rs_) and ast.unparse(rs_[0].args[0]) in ('*shape', 'shape') and not rs_[0].keywords
        rep.ob('R-TPL', 'from_file %s decode' % var, okc, ('%s parsed with count=prod(shape) and reshaped in C order' % var) if fs_ else 'statement that parses the %s line not found' % var,
               rel, fs_[0].lineno if fs_ else fr.lineno, what='%s line has prod(shape) entries, C order' % var)
    mask_texts = {k for k, v in text_of.items() if v == 'mask'} | {'maskline'}
    t_empty = ['not %s' % k for k in mask_texts] + ["%s == ''" % k for k in mask_texts]
    t_full = list(mask_texts) + ["%s != ''" % k for k in mask_texts] + ['len(%s) > 0' % k for k in mask_texts]
    opt = [n for n in own_nodes(fr) if isinstance(n, ast.If) and ast.unparse(n.test) in t_empty]
    oko = bool(opt) and any(isinstance(x, ast.Assign) and ast.unparse(x.targets[0]) == 'mask' and ast.unparse(x.value) == 'None' for x in opt[0].body)
    if not opt:
        # `mask = None` as the default, overwritten only when there is a mask line
        blk = fr.body
        for i, x in enumerate(blk):
            if isinstance(x, ast.If) and ast.unparse(x.test) in t_full and not x.orelse and i > 0:
                before = [y for y in blk[:i] if isinstance(y, ast.Assign) and ast.unparse(y.targets[0]) == 'mask']
                if before and ast.unparse(before[-1]) == 'mask = None' and any(isinstance(y, ast.Assign) and ast.unparse(y.targets[0]) == 'mask' for y in x.body):
                    opt, oko = [x], True
    rep.ob('R-TPL', 'from_file optional mask', oko, 'missing mask line (pre-1.3 format) gives mask=None', rel, opt[0].lineno if opt else fr.lineno,
           what='mask line optional')
    # construction
    cons = [n for n in own_nodes(fr) if isinstance(n, ast.Call) and dotted(n.func) == 'Spectrum']
    okk = False
    if cons:
        ctor = prog.func(SM, 'Spectrum.__new__')
        b, problems = bind_call(ctor, cons[0], skip_self=True)
        okk = not problems and all(ast.unparse(b.get(k)) == v for k, v in (('data', 'data'), ('mask', 'mask'), ('mask_corners', 'mask_corners'),
                                                                         ('data_folded', 'folded'), ('pop_ids', 'pop_ids')) if True and b.get(k) is not None) \
            and all(k in b for k in ('data', 'mask', 'data_folded', 'pop_ids'))
    rep.ob('R-IDX', 'from_file constructor', okk, 'Spectrum built by %s' % (ast.unparse(cons[0]) if cons else None), rel, cons[0].lineno if cons else fr.lineno,
           what='data, mask, folding flag and labels reach the like-named constructor parameters')
    # comments: '# ' + line.strip() + newline  <->  line[1:].strip()
    cw = [(ev, g) for (k, ev, g, st) in events if k == 'write' and any(x.startswith('for line in comment_lines') for x in g)]
    okcw = len(cw) == 3 and isinstance(cw[0][0], ast.Constant) and cw[0][0].value.startswith('#') and ast.unparse(cw[1][0]) == 'line.strip()' \
        and isinstance(cw[2][0], ast.Constant) and cw[2][0].value == '\n'
    if W is not None:
        okcw = W['comments'][0]
    rep.ob('R-TPL', 'to_file comments', okcw, W['comments'][1] if W is not None else 'comment line written as %s' % [ast.unparse(e) for e, _ in cw], rel, to.lineno, what="'#' + text + newline per comment")
    cr = [n for n in own_nodes(fr) if isinstance(n, ast.While) and 'startswith' in ast.unparse(n.test)]
    okcr = bool(cr) and str_consts(cr[0].test) == ['#'] and any('line[1:].strip()' in ast.unparse(x) for x in cr[0].body) \
        and any(isinstance(x, ast.Assign) and 'readline' in ast.unparse(x.value) for x in cr[0].body)
    rep.ob('R-TPL', 'from_file comments', okcr, 'comment lines consumed while line.startswith(\'#\')', rel, cr[0].lineno if cr else fr.lineno,
           what='comments stripped of # and whitespace, next line read')
    rc = [n for n in own_nodes(fr) if isinstance(n, ast.Return)]
    okrc = any(isinstance(n.value, ast.Tuple) and ast.unparse(n.value) in ('(fs, comments)', 'fs, comments') for n in rc) and \
        any(ast.unparse(n.value) == 'fs' for n in rc)
    rep.ob('R-FLOW', 'from_file return', okrc, 'returns fs or (fs, comments)', rel, fr.lineno, what='comments returned on request')


def check_pickle(rep, prog, m):
    rel = m.rel
    pk = prog.func(SM, 'Spectrum_pickler')
    up = prog.func(SM, 'Spectrum_unpickler')
    ret = [n for n in own_nodes(pk) if isinstance(n, ast.Return)]
    if len(ret) != 1 or not isinstance(ret[0].value, ast.Tuple) or len(ret[0].value.elts) != 2 or not isinstance(ret[0].value.elts[1], ast.Tuple):
        raise AnalysisError('Spectrum_pickler does not return (callable, args tuple)')
    callee, tup = ret[0].value.elts
    rep.ob('R-ARGS', 'Spectrum_pickler', ast.unparse(callee) == up.name, 'reconstructor is %s' % ast.unparse(callee), rel, ret[0].lineno, what='reconstructor')
    params = positional_params(up)
    attr_of = {'data': 'data', 'mask': 'mask', 'data_folded': 'folded', 'pop_ids': 'pop_ids', 'extrap_x': 'extrap_x'}
    arg0 = positional_params(pk)[0]
    rep.ob('R-ARGS', 'Spectrum_pickler', len(tup.elts) == len(params), '%d values for %d parameters' % (len(tup.elts), len(params)), rel, ret[0].lineno, what='tuple length')
    for p, el in zip(params, tup.elts):
        ok = isinstance(el, ast.Attribute) and ast.unparse(el.value) == arg0 and el.attr == attr_of.get(p)
        rep.ob('R-ARGS', 'Spectrum_pickler', ok, 'parameter %s receives %s' % (p, ast.unparse(el)), rel, ret[0].lineno, what='slot ' + p)
    cons = [n for n in own_nodes(up) if isinstance(n, ast.Call) and _last(dotted(n.func)) == 'Spectrum']
    if not cons:
        raise AnalysisError('Spectrum_unpickler does not build a Spectrum')
    ctor = prog.func(SM, 'Spectrum.__new__')
    b, problems = bind_call(ctor, cons[0], skip_self=True, scope=up)
    for k in ('data', 'mask', 'data_folded', 'pop_ids', 'extrap_x'):
        v = b.get(k)
        rep.ob('R-IDX', 'Spectrum_unpickler', v is not None and ast.unparse(v) == k, 'constructor parameter %s receives %s' % (k, ast.unparse(v) if v is not None else None),
               rel, cons[0].lineno, what='slot ' + k)
    for k in ('mask_corners', 'check_folding'):
        v = b.get(k)
        rep.ob('R-IDX', 'Spectrum_unpickler', isinstance(v, ast.Constant) and v.value is False, '%s=%s' % (k, ast.unparse(v) if v is not None else 'default (True)'),
               rel, cons[0].lineno, what=k + '=False so that mask and data are restored unaltered')
    reg = [n for n in ast.walk(m.tree) if isinstance(n, ast.Call) and dotted(n.func) == 'copyreg.pickle']
    okr = bool(reg) and [ast.unparse(a) for a in reg[0].args][:2] == ['Spectrum', 'Spectrum_pickler']
    rep.ob('R-ARGS', 'copyreg registration', okr, ast.unparse(reg[0]) if reg else 'no copyreg.pickle call', rel, reg[0].lineno if reg else 1, what='pickler registered for Spectrum')


def check_array_io(rep, prog):
    m = prog.mod(NUM)
    w = prog.func(NUM, 'array_to_file')
    r = prog.func(NUM, 'array_from_file')
    # writer: shape as '%i ' then separator; data.tofile(fid, ' ', fmt with precision)
    tof = [n for n in own_nodes(w) if isinstance(n, ast.Call) and isinstance(n.func, ast.Attribute) and n.func.attr == 'tofile']
    okw = bool(tof) and len(tof[0].args) >= 3 and isinstance(tof[0].args[1], ast.Constant) and tof[0].args[1].value == ' ' and 'precision' in names_in(tof[0].args[2])
    rep.ob('R-TPL', 'array_to_file data', okw, ast.unparse(tof[0]) if tof else 'no tofile call', m.rel, tof[0].lineno if tof else w.lineno,
           what="data written space separated with the requested precision")
    shp = [n for n in own_nodes(w) if isinstance(n, ast.For) and 'shape' in ast.unparse(n.iter)]
    oks = bool(shp) and any("'%i '" in ast.unparse(x) or '"%i "' in ast.unparse(x) or "'%d '" in ast.unparse(x) for x in shp[0].body)
    rep.ob('R-TPL', 'array_to_file shape', oks, 'shape written one integer per axis', m.rel, shp[0].lineno if shp else w.lineno, what='shape line')
    rd = [n for n in own_nodes(r) if isinstance(n, ast.Call) and _last(dotted(n.func)) == 'fromfile']
    okr = False
    if rd:
        kw = {k.arg: k.value for k in rd[0].keywords}
        okr = 'count' in kw and ast.unparse(kw['count']) == 'numpy.prod(shape)' and isinstance(kw.get('sep'), ast.Constant) and kw['sep'].value == ' '
    rep.ob('R-TPL', 'array_from_file data', okr, ast.unparse(rd[0]) if rd else 'no fromfile', m.rel, rd[0].lineno if rd else r.lineno,
           what='reads prod(shape) space separated values')
    sh = [n for n in own_nodes(r) if isinstance(n, ast.Assign) and ast.unparse(n.targets[0]) == 'shape']
    def to_int(v):
        """the value converts the fields of the split line to integers: int(x) per element, map(int, ...), dtype=int"""
        for c in ast.walk(v):
            if isinstance(c, ast.Call):
                f_ = dotted(c.func) or ''
                if f_ == 'int' and c.args:
                    return True
                if f_ == 'map' and c.args and isinstance(c.args[0], ast.Name) and c.args[0].id == 'int':
                    return True
                if any(k.arg == 'dtype' and ast.unparse(k.value) in ('int', 'numpy.int64', 'numpy.int_', 'numpy.intp') for k in c.keywords):
                    return True
        return False
    oksh = bool(sh) and to_int(sh[0].value) and '.split()' in ast.unparse(sh[0].value)
    rep.ob('R-TPL', 'array_from_file shape', oksh, ast.unparse(sh[0]) if sh else 'shape not parsed', m.rel, sh[0].lineno if sh else r.lineno, what='shape parsed as integers')


def run(rep, prog, tier):
    m = prog.mod(SM)
    rep.saw_file(m.rel)
    WRITER['verdicts'] = writer_by_execution(prog, m)
    for q, mn in (('Spectrum.to_file', 4), ('Spectrum.from_file', 2)):
        fn = prog.func(SM, q)
        generic.rule_name(rep, prog, m, fn)
        generic.rule_def(rep, m, fn)
        io_check(rep, m, fn, mn)
    nm = prog.mod(NUM)
    for q, mn in (('array_to_file', 3), ('array_from_file', 1)):
        fn = prog.func(NUM, q)
        generic.rule_name(rep, prog, nm, fn)
        generic.rule_def(rep, nm, fn)
        io_check(rep, nm, fn, mn)
    check_tables(rep, prog, m)
    check_pickle(rep, prog, m)
    check_array_io(rep, prog)
    # aliases
    cls = m.classes['Spectrum']
    al = {ast.unparse(s.targets[0]): ast.unparse(s.value) for s in cls.body if isinstance(s, ast.Assign) and isinstance(s.targets[0], ast.Name)}
    rep.ob('R-NAME', 'Spectrum.tofile/fromfile aliases', al.get('tofile') == 'to_file' and al.get('fromfile') == 'from_file',
           'tofile=%s fromfile=%s' % (al.get('tofile'), al.get('fromfile')), m.rel, cls.lineno, what='aliases bind the analysed functions')
    rep.floor('R-IO', 12)
    rep.floor('R-TPL', 15)
    rep.floor('R-ARGS', 8)
