"""C19 - Uncertainty machinery differentiates exactly and matches closed-form information (DESIGN.md C19)."""
import ast, re
from fractions import Fraction
from sa import generic
from sa.algebra import Rat, Poly, Translator, AlgebraError
from sa.extract import single_assignments, inline, names_in
from sa.srcmodel import own_nodes, dotted, positional_params, bind_call, func_params
from sa.tags import run_tags
from sa.report import AnalysisError

EXPLANATION = (
    "Decides from dadi/Godambe.py, for all functions, step sizes and parameter values: (1) stencil moment conditions - "
    "every arm of hessian_elem (4) and get_grad (3) is interpreted as a typestate over the work vector (which offsets, in "
    "units of eps, each sample is taken at) and the resulting linear combination of samples is proved, as a rational "
    "identity in the step sizes, to give the exact second (first) derivative of every monomial of degree <= 2 (<= 1 for the "
    "one-sided gradient); get_hess symmetrises and get_hess/get_grad use the same step rule; (2) R-DEF - sum_chi2_ppf binds "
    "every local on every path (scalars and arrays alike); (3) R-KEY - the module-level spectrum cache key covers every input "
    "of the cached evaluation and contains no hash()/id() of an object the cache does not retain; (4) order independence - "
    "the bootstrap loop carries only additive accumulators, normalised once; (5) the Godambe/LRT/Wald/score matrix "
    "expressions have the documented shapes, the observed information is minus the Hessian, log-mode differentiates "
    "log-parameters of the exponentiating wrapper, and the five multinomial theta-augmentation blocks are identical clones. "
    "The O(eps^2) numerical agreement on Poisson models is not decided.")
TECHNIQUE = "stencil typestate + rational identities (moment conditions), definite assignment, memo-key completeness, loop-carried dependence"
DECLINED = ["O(eps^2) agreement with closed forms on particular Poisson models", "floating-point cancellation in the stencils"]

GOD = 'dadi.Godambe'


def _last(n):
    return (n or '').split('.')[-1]


# ---------------------------------------------------------------------------
# stencil interpretation
# ---------------------------------------------------------------------------

def arms_of(stmts):
    """enumerate the straight-line paths through nested if/else (conditions are not interpreted)"""
    paths = [([], [])]
    for st in stmts:
        if isinstance(st, ast.If):
            new = []
            for seq, conds in paths:
                for sub_seq, sub_c in arms_of(st.body):
                    new.append((seq + sub_seq, conds + [ast.unparse(st.test)] + sub_c))
                for sub_seq, sub_c in (arms_of(st.orelse) if st.orelse else [([], [])]):
                    new.append((seq + sub_seq, conds + ['not(' + ast.unparse(st.test) + ')'] + sub_c))
            paths = new
        else:
            paths = [(seq + [st], conds) for seq, conds in paths]
    return paths


def indexed_loop_elements(fn):
    """a copy of fn in which the element names of `for i, (a, b) in enumerate(zip(A, B))` / `for i, a in enumerate(A)` are written as
    A[i], B[i] inside the loop body - valid when neither the element names nor the sequences are assigned in the body (p0 and eps are
    read-only in the stencil loops; the work vector is a separate array)"""
    from sa.srcmodel import clone
    fn = clone(fn)
    for lp in [n for n in ast.walk(fn) if isinstance(n, ast.For)]:
        it = lp.iter
        if not (isinstance(it, ast.Call) and isinstance(it.func, ast.Name) and it.func.id == 'enumerate' and len(it.args) == 1 and isinstance(lp.target, ast.Tuple) and len(lp.target.elts) == 2 and
                isinstance(lp.target.elts[0], ast.Name)):
            continue
        idx = lp.target.elts[0].id
        src, tgt = it.args[0], lp.target.elts[1]
        if isinstance(src, ast.Call) and isinstance(src.func, ast.Name) and src.func.id == 'zip' and isinstance(tgt, ast.Tuple) and len(tgt.elts) == len(src.args):
            pairs = list(zip(tgt.elts, src.args))
        else:
            pairs = [(tgt, src)]
        if not all(isinstance(a, ast.Name) and isinstance(b, ast.Name) for a, b in pairs):
            continue
        stored = set()
        for st in lp.body:
            for x in ast.walk(st):
                if isinstance(x, ast.Name) and isinstance(x.ctx, (ast.Store, ast.Del)):
                    stored.add(x.id)
                if isinstance(x, (ast.Subscript, ast.Attribute)) and isinstance(x.ctx, (ast.Store, ast.Del)):
                    r_ = x
                    while isinstance(r_, (ast.Subscript, ast.Attribute)):
                        r_ = r_.value
                    if isinstance(r_, ast.Name):
                        stored.add(r_.id)
        if any(a.id in stored or b.id in stored for a, b in pairs) or idx in stored:
            continue
        mp = {a.id: b.id for a, b in pairs}

        class T(ast.NodeTransformer):
            def visit_Name(self, n):
                if isinstance(n.ctx, ast.Load) and n.id in mp:
                    return ast.copy_location(ast.Subscript(value=ast.Name(id=mp[n.id], ctx=ast.Load()), slice=ast.Name(id=idx, ctx=ast.Load()), ctx=ast.Load()), n)
                return n
        lp.body = [T().visit(st) for st in lp.body]
        for st in lp.body:
            ast.fix_missing_locations(st)
    # parents for the rules that walk upwards
    for n in ast.walk(fn):
        for c in ast.iter_child_nodes(n):
            c._parent = n
    return fn


def parse_offset(expr, base, axes_names):
    """pwork[X] = p0[X] + <combination of eps[...]>  ->  (X, Rat offset in the step atoms h_<axis>)
    (the offset normally is k*h_X; a step taken from ANOTHER axis is kept as such and fails the moment conditions)"""
    def index_hook(tr, e):
        b = ast.unparse(e.value)
        if b == 'eps':
            return Rat.atom('h_' + ast.unparse(e.slice))
        if b == base:
            return Rat.atom('P_' + ast.unparse(e.slice))
        return None
    try:
        r = Translator({}, index_hook=index_hook).tr(expr)
    except AlgebraError:
        return None
    ps = [a for a in r.atoms() if a.startswith('P_')]
    if len(ps) != 1:
        return None
    ax = ps[0][2:]
    off = r - Rat.atom(ps[0])
    if any(a.startswith('P_') for a in off.atoms()) or ax not in axes_names:
        return None
    return ax, off


def interpret_arm(seq, result_name, axes_names, f0_name=None):
    """returns (element Rat builder inputs): samples name -> offsets dict, and the result expression"""
    offsets = {}
    samples = {}
    result = None
    for st in seq:
        if isinstance(st, ast.Assign) and len(st.targets) == 1:
            t = st.targets[0]
            if isinstance(t, ast.Subscript) and ast.unparse(t.value) == 'pwork':
                ax = ast.unparse(t.slice)
                po = parse_offset(st.value, 'p0', axes_names)
                if po is None or po[0] != ax:
                    raise AnalysisError('work-vector update %s is not of the form p0[i] +/- k*eps[i]' % ast.unparse(st))
                offsets[ax] = po[1]
                continue
            if isinstance(t, ast.Name) and isinstance(st.value, ast.Call) and dotted(st.value.func) == 'func':
                if st.value.args and ast.unparse(st.value.args[0]) == 'p0':
                    samples[t.id] = {}            # evaluated at the unperturbed point
                    continue
                if not (st.value.args and ast.unparse(st.value.args[0]) == 'pwork'):
                    raise AnalysisError('sample %s is not evaluated at the work vector' % ast.unparse(st))
                samples[t.id] = dict(offsets)
                continue
            if ast.unparse(t) == result_name or (isinstance(t, ast.Subscript) and ast.unparse(t.value) == result_name):
                result = st.value
                continue
            if isinstance(t, ast.Name) and t.id == 'pwork':
                offsets = {}
                continue
    LAST_OFFSETS.clear()
    LAST_OFFSETS.update(offsets)
    return samples, result


LAST_OFFSETS = {}


def moment(samples, result, axes, powers, f0_name):
    """value of the stencil applied to the monomial prod_a x_a^p_a (displacements from p0)"""
    env = {}
    for name, off in samples.items():
        v = Rat.const(1)
        for a, p in zip(axes, powers):
            if p:
                v = v * (off.get(a, Rat.const(0)) ** p)
        env[name] = v
    if f0_name:
        env[f0_name] = Rat.const(1 if all(p == 0 for p in powers) else 0)

    def index_hook(tr, e):
        if ast.unparse(e.value) == 'eps':
            return Rat.atom('h_' + ast.unparse(e.slice))
        return None
    return Translator(env, index_hook=index_hook).tr(result)


def check_stencils(rep, prog, m):
    rel = m.rel
    he = prog.func(GOD, 'hessian_elem')
    rep.saw_function(rel + ':hessian_elem')
    top = [st for st in he.body if isinstance(st, ast.If) and 'ii == jj' in ast.unparse(st.test)]
    if len(top) != 1:
        raise AnalysisError('anchor vanished: the ii == jj dispatch of hessian_elem')
    n_arms = 0
    for kind, body in (('diagonal', top[0].body), ('mixed', top[0].orelse)):
        for seq, conds in arms_of(body):
            samples, result = interpret_arm(seq, 'element', ('ii', 'jj'), 'f0')
            if result is None:
                raise AnalysisError('an arm of hessian_elem does not assign element')
            n_arms += 1
            armname = 'hessian_elem[%s; %s]' % (kind, ' and '.join(conds)[:70])
            axes = ('ii',) if kind == 'diagonal' else ('ii', 'jj')
            monos = [(p,) for p in range(3)] if kind == 'diagonal' else [(a, b) for a in range(3) for b in range(3) if a + b <= 2]
            for pw in monos:
                try:
                    val = moment(samples, result, axes, pw, 'f0')
                except AlgebraError as e:
                    raise AnalysisError('cannot normalise the stencil of %s: %s' % (armname, e))
                if kind == 'diagonal':
                    expect = 2 if pw == (2,) else 0
                else:
                    expect = 1 if pw == (1, 1) else 0
                ok = val.equals(Rat.const(expect))
                rep.ob('R-ALG', armname, ok, 'stencil applied to monomial x^%s gives %s, exact derivative is %d; samples at offsets %s'
                       % (pw, val.canon(), expect, {k: {a: o.canon() for a, o in v.items()} for k, v in samples.items()}), rel,
                       seq[0].lineno if seq else he.lineno, what='moment condition for monomial %s' % (pw,))
    rep.ob('R-EXH', 'hessian_elem arms', n_arms == 4, '%d stencil arms (central/one-sided x diagonal/mixed)' % n_arms, rel, he.lineno, what='four stencil arms')
    # returns element
    rets = [n for n in own_nodes(he) if isinstance(n, ast.Return)]
    rep.ob('R-FLOW', 'hessian_elem return', len(rets) == 1 and ast.unparse(rets[0].value) == 'element', 'returns %s' % [ast.unparse(r.value) for r in rets],
           rel, he.lineno, what='returns the stencil value')
    # work vector is a float copy of p0
    pw = single_assignments(he).get('pwork')
    okc = pw is not None and isinstance(pw, ast.Call) and _last(dotted(pw.func)) == 'array' and ast.unparse(pw.args[0]) == 'p0' and \
        any(k.arg == 'dtype' and ast.unparse(k.value) == 'float' for k in pw.keywords)
    rep.ob('R-PURE', 'hessian_elem work vector', bool(okc), 'pwork = %s' % (ast.unparse(pw) if pw is not None else None), rel, he.lineno,
           what='work vector is a float copy of p0 (integer p0 is not truncated, p0 is not modified)')

    gg = prog.func(GOD, 'get_grad')
    rep.saw_function(rel + ':get_grad')
    gg_orig = gg
    gg = indexed_loop_elements(gg)
    loops = [n for n in gg.body if isinstance(n, ast.For) and 'pwork' in ast.unparse(n)]
    if len(loops) != 1:
        raise AnalysisError('anchor vanished: the per-parameter loop of get_grad')
    n_arms = 0
    # values of func at the unperturbed point that are computed once and shared by the arms (f0 = func(p0, *args), possibly
    # under `if f0 is None`): available as zero-offset samples in every arm
    shared = {}
    for n in own_nodes(gg):
        if isinstance(n, ast.Assign) and len(n.targets) == 1 and isinstance(n.targets[0], ast.Name) and isinstance(n.value, ast.Call) and dotted(n.value.func) == 'func' \
                and n.value.args and ast.unparse(n.value.args[0]) == 'p0':
            shared[n.targets[0].id] = {}
    fresh_in_loop = any(isinstance(st, ast.Assign) and ast.unparse(st.targets[0]) == 'pwork' and isinstance(st.value, ast.Call) and ast.unparse(st.value.args[0]) == 'p0'
                        for st in loops[0].body)
    carried = []
    seen_arms = set()
    for seq, conds in arms_of(loops[0].body):
        if any(c.replace(' ', '') in ('f0isNone', 'not(f0isNone)') or 'is None' in c for c in conds) and not any(isinstance(st, ast.Assign) and 'grad' in ast.unparse(st.targets[0]) for st in seq):
            continue
        samples, result = interpret_arm(seq, 'grad', ('ii',))
        for k_, v_ in shared.items():
            samples.setdefault(k_, v_)
        if not fresh_in_loop:
            left = {a: o.canon() for a, o in LAST_OFFSETS.items() if not o.is_zero()}
            if left:
                carried.append('arm [%s] leaves pwork displaced by %s' % (' and '.join(conds)[:60], left))
        if result is None:
            raise AnalysisError('an arm of get_grad does not assign grad[ii]')
        # the arm taken for a non-zero parameter that is not flagged one-sided is the central one; decided on the conditions' meaning
        def reachable_central(conds_):
            def tv(e, two):
                if isinstance(e, ast.BoolOp):
                    vs = [tv(v, two) for v in e.values]
                    if None in vs:
                        return None
                    return all(vs) if isinstance(e.op, ast.And) else any(vs)
                if isinstance(e, ast.UnaryOp) and isinstance(e.op, ast.Not):
                    v = tv(e.operand, two)
                    return None if v is None else not v
                t_ = ast.unparse(e).replace(' ', '')
                if t_ in ('p0[ii]!=0', '0!=p0[ii]'):
                    return True
                if t_ in ('p0[ii]==0', '0==p0[ii]', 'notp0[ii]'):
                    return False
                if t_ == 'p0[ii]':
                    return True
                if t_ == 'one_sided[ii]':
                    return False
                if t_ == 'two_pt_deriv_test':
                    return two
                return None
            for two in (False, True):
                ok_all = True
                for c_ in conds_:
                    neg = c_.startswith('not(') and c_.endswith(')')
                    try:
                        e_ = ast.parse(c_[4:-1] if neg else c_, mode='eval').body
                    except SyntaxError:
                        return None
                    v = tv(e_, two)
                    if v is None:
                        if 'is None' in c_:
                            continue
                        return None
                    if (not v) if neg else v:
                        continue
                    ok_all = False
                    break
                if ok_all:
                    return True
            return False
        rc = reachable_central(conds)
        onesided = (not rc) if rc is not None else any(c.startswith('not(') and 'one_sided' in c for c in conds)
        armname = 'get_grad[%s]' % ' and '.join(c for c in conds if 'is None' not in c)[:80]
        if armname not in seen_arms:
            seen_arms.add(armname)
            n_arms += 1
        degs = (0, 1) if onesided else (0, 1, 2)
        for p in degs:
            val = moment(samples, result, ('ii',), (p,), None)
            expect = 1 if p == 1 else 0
            ok = val.equals(Rat.const(expect))
            rep.ob('R-ALG', armname, ok, 'stencil applied to x^%d gives %s, exact derivative is %d; samples at offsets %s'
                   % (p, val.canon(), expect, {k: {a: o.canon() for a, o in v.items()} for k, v in samples.items()}), rel,
                   seq[0].lineno, what='moment condition for monomial x^%d' % p)
    rep.ob('R-RESTORE', 'get_grad work vector', fresh_in_loop or not carried, 'pwork is a fresh copy of p0 for every parameter' if fresh_in_loop else
           ('; '.join(carried) if carried else 'pwork is shared between parameters and every arm restores the entry it moved'), rel, loops[0].lineno,
           what='each component is differentiated around p0: no displacement is carried over from the previous parameter')
    rep.ob('R-EXH', 'get_grad arms', n_arms == 3, '%d stencil arms' % n_arms, rel, gg.lineno, what='central, one-sided and optional 3-point arms')
    # arm selection: central only when the parameter is non-zero and not flagged one-sided (else the relative step is 0)
    gg = gg_orig
    for fn, var in ((he, 'pwork'), (gg, 'p0')):
        for n in own_nodes(fn):
            if isinstance(n, ast.If) and 'one_sided' in ast.unparse(n.test) and '!=' in ast.unparse(n.test):
                t = ast.unparse(n.test)
                ok = isinstance(n.test, ast.BoolOp) and isinstance(n.test.op, ast.And) and all(
                    (isinstance(v, ast.Compare) and isinstance(v.ops[0], ast.NotEq) and ast.unparse(v.comparators[0]) == '0') or
                    (isinstance(v, ast.UnaryOp) and isinstance(v.op, ast.Not) and 'one_sided' in ast.unparse(v)) for v in n.test.values)
                rep.ob('R-DOM', '%s arm selection' % fn.name, ok, 'central stencil guarded by %s' % t, rel, n.lineno,
                       what='central stencil only for non-zero, not one-sided parameters: %s' % t)
    # step rule identical in get_hess / get_grad
    gh = prog.func(GOD, 'get_hess')

    def step_loop(fn):
        """the loop that turns the fractional step into absolute steps, decided on the three worlds of one parameter (zero / non-zero
        with a relative step below 1e-6 / regular): which array gets which step and which flag is raised, however the tests are nested.
        -> roles of the names (A = array of steps, S = fractional step, O = one-sided flags) or None"""
        sing = single_assignments(fn)
        for n in fn.body:
            if not (isinstance(n, ast.For) and ast.unparse(n.iter) == 'enumerate(p0)' and isinstance(n.target, ast.Tuple) and len(n.target.elts) == 2):
                continue
            iv, pv = [ast.unparse(x) for x in n.target.elts]
            # the tiny-step test: <pv * S> < 1e-06 somewhere in the loop
            S = None
            for t in ast.walk(n):
                if isinstance(t, ast.Compare) and len(t.ops) == 1 and isinstance(t.ops[0], ast.Lt) and isinstance(t.left, ast.BinOp) and isinstance(t.left.op, ast.Mult) \
                        and ast.unparse(t.comparators[0]) == '1e-06':
                    ops = [ast.unparse(t.left.left), ast.unparse(t.left.right)]
                    if pv in ops:
                        S = ops[1 - ops.index(pv)]
            if S is None:
                continue

            def tv(e, world):
                if isinstance(e, ast.BoolOp):
                    vs = [tv(v, world) for v in e.values]
                    if None in vs:
                        return None
                    return all(vs) if isinstance(e.op, ast.And) else any(vs)
                if isinstance(e, ast.UnaryOp) and isinstance(e.op, ast.Not):
                    v = tv(e.operand, world)
                    return None if v is None else not v
                t_ = ast.unparse(e).replace(' ', '')
                if t_ in ('%s!=0' % pv, '0!=%s' % pv, pv):
                    return world != 'zero'
                if t_ in ('%s==0' % pv, '0==%s' % pv):
                    return world == 'zero'
                if t_ in ('%s*%s<1e-06' % (pv, S), '%s*%s<1e-06' % (S, pv)):
                    return world != 'regular'       # for a zero parameter the product is 0 < 1e-6 as well
                return None

            def run(stmts, world, out):
                for st in stmts:
                    if isinstance(st, ast.If):
                        v = tv(st.test, world)
                        if v is None:
                            return False
                        if not run(st.body if v else st.orelse, world, out):
                            return False
                    elif isinstance(st, ast.Assign) and len(st.targets) == 1 and isinstance(st.targets[0], ast.Subscript) and ast.unparse(st.targets[0].slice) == iv:
                        out[ast.unparse(st.targets[0].value)] = ast.unparse(st.value)
                    elif isinstance(st, (ast.Pass,)) or (isinstance(st, ast.Expr) and isinstance(st.value, ast.Constant)):
                        continue
                    else:
                        return False
                return True
            res = {}
            okrun = True
            for world in ('zero', 'tiny', 'regular'):
                res[world] = {}
                okrun = okrun and run(n.body, world, res[world])
            if not okrun:
                continue
            # roles: the array that receives a step in every world, the flag list that receives True
            arrays = set(res['zero']) & set(res['tiny']) & set(res['regular'])
            flags_ = {k for w in res.values() for k, v in w.items() if v == 'True'}
            if len(arrays - flags_) != 1 or len(flags_) != 1:
                continue
            A, O = list(arrays - flags_)[0], list(flags_)[0]
            good = res['zero'].get(A) == S and O not in res['zero'] and \
                res['tiny'].get(A) == S and res['tiny'].get(O) == 'True' and \
                res['regular'].get(A) in ('%s * %s' % (S, pv), '%s * %s' % (pv, S)) and O not in res['regular']
            if not good:
                return {'A': A, 'S': S, 'O': O, 'node': n, 'ok': False}
            # S is the fractional step handed to the function: its eps parameter, or a copy of it taken before A took over the name
            s_ok = (S == 'eps' and A != 'eps') or (S in sing and ast.unparse(sing[S]) == 'eps')
            inits = {ast.unparse(x.targets[0]): ast.unparse(inline(x.value, {k_: v_ for k_, v_ in sing.items() if ast.unparse(v_) == 'len(p0)'})) for x in fn.body[:fn.body.index(n)]
                     if isinstance(x, ast.Assign) and len(x.targets) == 1}
            i_ok = inits.get(A) in ('numpy.empty([len(p0)])', 'numpy.empty(len(p0))', 'numpy.zeros(len(p0))', 'numpy.zeros([len(p0)])') and inits.get(O) == '[False] * len(p0)'
            return {'A': A, 'S': S, 'O': O, 'node': n, 'ok': s_ok and i_ok}
        return None
    r1, r2 = step_loop(gh), step_loop(gg)
    ok = r1 is not None and r2 is not None and r1['ok'] and r2['ok']
    rep.ob('R-TPL', 'step rule', ok, 'get_hess and get_grad compute the absolute steps / one_sided flags with the same rule' + ('' if r1 and r2 else ' (the loop over enumerate(p0) was not found in %s)' %
           ' and '.join(f for f, r in (('get_hess', r1), ('get_grad', r2)) if r is None)), rel, gh.lineno, what='sibling step rules agree')
    if r1:
        rep.ob('R-TPL', 'step rule', r1['ok'], 'relative step eps*p, absolute step eps for zero or tiny parameters (flagged one-sided); steps in %s, flags in %s' % (r1['A'], r1['O']), rel, r1['node'].lineno,
               what='step sizes: relative, absolute for zero/tiny parameters')
    # symmetrisation and argument wiring in get_hess
    calls = [n for n in own_nodes(gh) if isinstance(n, ast.Call) and dotted(n.func) == 'hessian_elem']
    okw = False
    if calls and r1:
        b, problems = bind_call(he, calls[0])
        want = {'func': 'func', 'f0': 'f0', 'p0': 'p0', 'ii': 'ii', 'jj': 'jj', 'eps': r1['A'], 'args': 'args', 'one_sided': r1['O']}
        okw = not problems and all(ast.unparse(b[k]) == want[k] for k in want if k in b) and len(b) == 8
    rep.ob('R-ARGS', 'get_hess -> hessian_elem', okw, ast.unparse(calls[0]) if calls else 'no call', rel, calls[0].lineno if calls else gh.lineno, what='arguments forwarded by name')
    # what every cell of the returned matrix holds, for 1-3 parameters (abstract execution; element stores, nested subscripts, copies of
    # cells and the triu_indices mirror are followed): cell (i, j) is the finite-difference element of the ordered pair (min, max)
    from sa import miniexec as mx
    from sa import alpha as _alpha
    known_ = _alpha.load_table().get('__params__', {}).get(rel)
    known_ = set(known_) if known_ is not None else None
    bads = []
    try:
        for n_ in (1, 2, 3):
            it_ = mx.Interp(prog, m, known_functions=known_)
            p0v = [mx.Sym('p%d' % k, truth=True) for k in range(n_)]
            paths = [p_ for p_ in it_.run(gh, {'func': mx.Sym('func'), 'p0': p0v, 'eps': mx.Sym('eps'), 'args': (mx.Sym('arg0'),)}) if p_[0][0] == 'return']
            if not paths:
                raise mx.Undecidable('no returning path for %d parameters' % n_)
            for outcome, events, _d in paths:         # (the step rule forks on the size of each parameter)
                res = outcome[1]
                rt = mx.show(res)
                cells = {}

                def cell_of(base, key):
                    """(i, j) or ('mirror', X) for a store / read of res"""
                    if mx.show(base) == rt and isinstance(key, tuple) and len(key) == 2:
                        return key
                    if isinstance(base, mx.Sym) and base.struct and base.struct[0] == 'index' and mx.show(base.struct[1]) == rt and not isinstance(key, tuple):
                        return (base.struct[2], key)
                    return None

                def value_of(v):
                    if isinstance(v, mx.Sym) and v.struct and v.struct[0] == 'index':
                        c_ = cell_of(v.struct[1], v.struct[2])
                        if c_ is not None and all(isinstance(x, int) for x in c_):
                            return cells.get(c_)
                    return v
                for e in events:
                    if e[0] != 'setitem':
                        continue
                    c_ = cell_of(e[4], e[2])
                    if c_ is None:
                        continue
                    if all(isinstance(x, int) for x in c_):
                        cells[c_] = value_of(e[3])
                        continue
                    # res[cols, rows] = res[rows, cols] with rows, cols = numpy.triu_indices(n, k=1): the strict upper triangle mirrored
                    src = e[3]
                    sc = cell_of(src.struct[1], src.struct[2]) if isinstance(src, mx.Sym) and src.struct and src.struct[0] == 'index' else None
                    def tri(x):
                        if isinstance(x, mx.Sym) and x.struct and x.struct[0] == 'index' and x.struct[2] in (0, 1):
                            t_ = mx.call_of(x.struct[1], 'triu_indices')
                            if t_ is not None and t_[0] and t_[0][0] == n_ and (t_[1].get('k', t_[0][1] if len(t_[0]) > 1 else 0) == 1):
                                return x.struct[2]
                        return None
                    if sc is not None and [tri(x) for x in c_] == [1, 0] and [tri(x) for x in sc] == [0, 1]:
                        for i_ in range(n_):
                            for j_ in range(i_ + 1, n_):
                                cells[(j_, i_)] = cells.get((i_, j_))
                    else:
                        raise mx.Undecidable('store %s[%s]' % (rt[:20], mx.show(e[2])[:40]))
                for i_ in range(n_):
                    for j_ in range(n_):
                        v = cells.get((i_, j_))
                        c_ = mx.call_of(v, 'hessian_elem') if v is not None else None
                        ok_ = False
                        if c_ is not None:
                            pos = list(c_[0]) + [None] * 8
                            ii_v = c_[1].get('ii', pos[3])
                            jj_v = c_[1].get('jj', pos[4])
                            ok_ = (ii_v, jj_v) == (min(i_, j_), max(i_, j_))
                        if not ok_:
                            bads.append('%d parameters: cell (%d, %d) holds %s' % (n_, i_, j_, mx.show(v)[:50] if v is not None else 'nothing'))
    except mx.Undecidable as e:
        bads.append('get_hess is not recognised: %s' % e)
    rep.ob('R-TPL', 'get_hess symmetry', not bads, '; '.join(bads[:2]) if bads else 'every cell (i, j) holds the element of the ordered pair (min(i,j), max(i,j)), each evaluated once', rel, gh.lineno, what='Hessian is symmetrised')
    f0 = single_assignments(gh).get('f0')
    rep.ob('R-FLOW', 'get_hess f0', f0 is not None and ast.unparse(f0) == 'func(p0, *args)', 'f0 = %s' % (ast.unparse(f0) if f0 is not None else None), rel, gh.lineno,
           what='f0 is func at the expansion point')


# ---------------------------------------------------------------------------
# R-KEY
# ---------------------------------------------------------------------------

def rule_key(rep, prog, m, fn, cache_name, rule='R-KEY', enclosing=None):
    """memo `cache[key] = value`: inputs(value) subset of names(key); no hash()/id() in key"""
    q = fn._qualname
    singles = single_assignments(fn)
    stores = []
    for n in own_nodes(fn):
        if isinstance(n, ast.Assign):
            for t_ in n.targets:
                if isinstance(t_, ast.Subscript) and ast.unparse(t_.value) == cache_name:
                    # (a chained assignment `x = cache[key] = value` stores as well)
                    stores.append(n if t_ is n.targets[0] else ast.copy_location(ast.Assign(targets=[t_], value=n.value), n))
    if not stores:
        raise AnalysisError('anchor vanished: no store into %s in %s' % (cache_name, q))
    scope_vars = set(func_params(fn))
    if enclosing is not None:
        from sa.srcmodel import bound_locals
        scope_vars |= bound_locals(enclosing)[0]
    from sa.srcmodel import bound_locals as bl
    scope_vars |= bl(fn)[0]
    for st in stores:
        key = inline(st.targets[0].slice, singles)
        val = inline(st.value, singles)
        bad = [n for n in ast.walk(key) if isinstance(n, ast.Call) and (_last(dotted(n.func)) in ('__hash__', 'hash', 'id'))]
        rep.ob(rule, '%s:%s %s' % (m.rel, q, cache_name), not bad,
               'key %s contains %s of an object the cache does not retain: the value can be recycled for a different object'
               % (ast.unparse(key), ast.unparse(bad[0])) if bad else 'key %s holds the objects themselves' % ast.unparse(key),
               m.rel, st.lineno, what='key contains no recyclable hash()/id()')
        vnames = {n for n in names_in(val) if n in scope_vars}
        knames = names_in(key)
        missing = sorted(vnames - knames - {cache_name})
        rep.ob(rule, '%s:%s %s' % (m.rel, q, cache_name), not missing,
               'cached value %s depends on %s; key %s %s' % (ast.unparse(val)[:80], sorted(vnames), ast.unparse(key),
                                                          ('omits ' + ', '.join(missing)) if missing else 'covers all of them'),
               m.rel, st.lineno, what='key covers every input of the cached value')
    return len(stores)


# ---------------------------------------------------------------------------
# matrix expression shapes
# ---------------------------------------------------------------------------

def mat(e, singles):
    e = inline(e, singles, depth=3) if singles else e
    if isinstance(e, ast.Attribute) and e.attr == 'T':
        return ('transpose', mat(e.value, None))          # X.T
    if isinstance(e, ast.Call):
        nm = _last(dotted(e.func)) if dotted(e.func) else (e.func.attr if isinstance(e.func, ast.Attribute) else None)
        root = e.func.value if isinstance(e.func, ast.Attribute) else None
        is_module = isinstance(root, (ast.Name, ast.Attribute)) and ast.unparse(root) in ('numpy', 'np', 'numpy.linalg', 'np.linalg', 'scipy.linalg', 'linalg')
        # method forms: X.dot(Y), X.trace(), X.transpose()
        args = list(e.args) if (root is None or is_module) else [root] + list(e.args)
        if nm == 'dot' and len(args) == 2:
            out = []
            for a in args:
                r = mat(a, None)
                out.extend(r[1] if isinstance(r, tuple) and r[0] == 'dot' else [r])
            return ('dot', out)
        if nm in ('inv', 'transpose', 'trace', 'outer', 'len') and (nm != 'transpose' or len(args) == 1):
            return (nm,) + tuple(mat(a, None) for a in args)
    if isinstance(e, ast.BinOp) and isinstance(e.op, ast.Div):
        return ('/', mat(e.left, None), mat(e.right, None))
    if isinstance(e, ast.Subscript):
        return mat(e.value, None)
    return ast.unparse(e)


def check_assembly(rep, prog, m):
    rel = m.rel
    g = prog.func(GOD, 'get_godambe')
    rep.saw_function(rel + ':get_godambe')
    singles = single_assignments(g)
    # hess = -get_hess(...) in both arms; log arm differentiates log_func at log(p0)
    hs = [n for n in own_nodes(g) if isinstance(n, ast.Assign) and ast.unparse(n.targets[0]) == 'hess']
    for n in hs:
        ok = isinstance(n.value, ast.UnaryOp) and isinstance(n.value.op, ast.USub) and isinstance(n.value.operand, ast.Call) and dotted(n.value.operand.func) == 'get_hess'
        rep.ob('R-SIGN', 'get_godambe hess', ok, ast.unparse(n)[:80], rel, n.lineno, what='observed information is minus the Hessian of the log-likelihood')
    # what get_godambe computes in the natural and in the log world, with and without just_hess: abstract execution (one symbolic
    # iteration of the bootstrap loop; the nested likelihood wrappers are entered when they are called)
    from sa import miniexec as mx
    from sa import alpha as _alpha
    known_ = _alpha.load_table().get('__params__', {}).get(m.rel)
    known_ = set(known_) if known_ is not None else None
    bad = {k: [] for k in ('space', 'args', 'switch', 'logf', 'func', 'ord', 'zip', 'norm', 'jterm', 'shape', 'G', 'ret')}

    def dots(v):
        c = mx.call_of(v, 'dot')
        if c and len(c[0]) == 2:
            return dots(c[0][0]) + dots(c[0][1])
        rec = mx.method_call(v, 'dot')
        if rec is not None and len(v.struct[2]) == 1:
            return dots(rec) + dots(v.struct[2][0])
        return [v]
    n_worlds = 0
    for log in (False, True):
        for just_hess in (False, True):
            it = mx.Interp(prog, m, known_functions=known_, symbolic_loops=True)
            args = {'func_ex': mx.Sym('func_ex', truth=True), 'grid_pts': mx.Sym('grid_pts'), 'all_boot': mx.Sym('all_boot'), 'p0': mx.Sym('p0'), 'data': mx.Sym('data'), 'eps': mx.Sym('eps'),
                    'log': log, 'just_hess': just_hess, 'boot_theta_adjusts': mx.Sym('boot_theta_adjusts', truth=True)}
            try:
                paths = it.run(g, args)
            except mx.Undecidable as e:
                raise AnalysisError('get_godambe is not recognised: %s' % e)
            tagw = 'log=%s just_hess=%s' % (log, just_hess)
            if len(paths) != 1 or paths[0][0][0] != 'return':
                bad['ret'].append('%s: %d paths' % (tagw, len(paths)))
                continue
            n_worlds += 1
            outcome, events, dec = paths[0]
            want_f, want_p = ('log_func', 'numpy.log(p0)') if log else ('func', 'p0')
            hs_ = [e for e in events if e[0] == 'call' and e[1] == 'get_hess']
            gs_ = [e for e in events if e[0] == 'call' and e[1] == 'get_grad']
            for e in hs_ + gs_:
                b_ = {}
                try:
                    it.path = mx.Path([])
                    b_ = it.bind(prog.func(GOD, e[1]), e[2], e[3])
                except mx.Undecidable:
                    pass
                fobj, pobj = b_.get('func'), b_.get('p0')
                if not (isinstance(fobj, mx.FuncRef) and fobj.name == want_f and mx.show(pobj).replace('np.', 'numpy.') == want_p):
                    bad['space'].append('%s: %s differentiates %s at %s' % (tagw, e[1], mx.show(fobj), mx.show(pobj)))
                exp_args = ['data'] if e[1] == 'get_hess' else ['Spectrum(boot)', 'theta_adjust']
                if [mx.show(x) for x in (b_.get('args') or [])] != exp_args or mx.show(b_.get('eps')) != 'eps':
                    bad['args'].append('%s: %s args=%s eps=%s' % (tagw, e[1], mx.show(b_.get('args')), mx.show(b_.get('eps'))))
                # the wrapper that is differentiated, entered with symbolic arguments
                if isinstance(fobj, mx.FuncRef) and fobj.node is not None:
                    it3 = mx.Interp(prog, m, known_functions=known_)
                    inner = it3.run_thunk(lambda fobj=fobj, it3=it3: it3.apply(fobj, [mx.Sym('q'), mx.Sym('D'), mx.Sym('ta')], {}), 'likelihood wrapper')
                    for o3, ev3, d3 in inner:
                        ll = [x for x in ev3 if x[0] == 'call' and x[1] == 'Inference.ll']
                        okll = o3[0] == 'return' and len(ll) == 1 and len(ll[0][2]) == 2 and mx.show(ll[0][2][1]) == 'D'
                        if okll:
                            fac = mx.factors(ll[0][2][0], '*')
                            par = 'numpy.exp(q)' if log else 'q'
                            models = [f for f in fac if mx.show(f) != 'ta']
                            okm_ = len(fac) == 2 and len(models) == 1
                            if okm_:
                                mt = mx.show(models[0]).replace('np.', 'numpy.')
                                key_ = '(func_ex, tuple(%s), tuple(data.sample_sizes), tuple(grid_pts))' % par
                                okm_ = mt in ('cache[%s]' % key_, 'cache[%s]' % key_[1:-1], 'func_ex(%s, data.sample_sizes, grid_pts)' % par) or mt.startswith('cache.get(%s' % key_)
                            okll = okm_
                        if not okll:
                            bad['logf' if log else 'func'].append('%s: wrapper evaluates %s' % (tagw, mx.show(ll[0][2][0])[:90] if ll else o3))
            if len(hs_) != 1:
                bad['space'].append('%s: %d get_hess calls' % (tagw, len(hs_)))
                continue
            hess_call = hs_[0]
            v = outcome[1]
            if just_hess:
                ok_ = isinstance(v, mx.Sym) and v.struct and v.struct[0] == 'binop' and v.struct[1] == '-' and v.struct[2] == 0 and mx.call_of(v.struct[3], 'get_hess') is not None
                if not ok_ or gs_:
                    bad['ret'].append('%s: returns %s' % (tagw, mx.show(v)[:60]))
                continue
            if not (isinstance(v, tuple) and len(v) == 4):
                bad['ret'].append('%s: returns %s' % (tagw, mx.show(v)[:60]))
                continue
            G_, H_, J_, cU_ = v
            if not (isinstance(H_, mx.Sym) and H_.struct and H_.struct[:3] == ('binop', '-', 0) and mx.call_of(H_.struct[3], 'get_hess') is not None):
                bad['ret'].append('%s: second result is not minus the Hessian' % tagw)
            # (the same gradient written out more than once is one gradient)
            distinct_g = {(tuple(mx.show(a) for a in e[2]), tuple(sorted((k_, mx.show(v_)) for k_, v_ in e[3].items()))) for e in gs_}
            if len(distinct_g) != 1:
                bad['ord'].append('%s: %d different get_grad calls in one iteration' % (tagw, len(distinct_g)))
                continue
            lp_ = [e for e in events if e[0] == 'loop']
            if len(lp_) != 1 or 'zip(all_boot, boot_theta_adjusts)' not in lp_[0][1]:
                bad['zip'].append('%s: loop over %s' % (tagw, [e[1] for e in lp_]))
            for nm_, val in (('J', J_), ('cU', cU_)):
                st_ = val.struct if isinstance(val, mx.Sym) else None
                if not (st_ and st_[0] == 'binop' and st_[1] == '/' and mx.show(st_[3]) == 'len(all_boot)'):
                    bad['norm'].append('%s: %s = %s' % (tagw, nm_, mx.show(val)[:70]))
                    continue
                terms = mx.factors(st_[2], '+')
                zeros_ = [t_ for t_ in terms if mx.call_of(t_, 'zeros') is not None]
                rest = [t_ for t_ in terms if t_ not in zeros_]
                if len(zeros_) != 1 or len(rest) != 1:
                    bad['ord'].append('%s: %s accumulates %s' % (tagw, nm_, [mx.show(t_)[:40] for t_ in terms]))
                    continue
                shape_ = [mx.show(x) for x in (mx.call_of(zeros_[0], 'zeros')[0][0] if mx.call_of(zeros_[0], 'zeros')[0] else [])]
                if nm_ == 'J':
                    oc = mx.call_of(rest[0], 'outer')
                    if not (oc and len(oc[0]) == 2 and mx.show(oc[0][0]) == mx.show(oc[0][1]) and mx.call_of(oc[0][0], 'get_grad') is not None):
                        bad['jterm'].append('%s: J accumulates %s' % (tagw, mx.show(rest[0])[:70]))
                else:
                    if mx.call_of(rest[0], 'get_grad') is None:
                        bad['ord'].append('%s: cU accumulates %s' % (tagw, mx.show(rest[0])[:70]))
                    if shape_ != ['len(p0)', '1']:
                        bad['shape'].append('%s: cU allocated %s' % (tagw, shape_))
            ds = dots(G_)
            okG = len(ds) == 3 and mx.show(ds[0]) == mx.show(ds[2]) == mx.show(H_) and mx.call_of(ds[1], 'inv') is not None and mx.show(mx.call_of(ds[1], 'inv')[0][0]) == mx.show(J_)
            if not okG:
                bad['G'].append('%s: G = %s' % (tagw, ' . '.join(mx.show(x)[:30] for x in ds)))
    if n_worlds < 4:
        bad['ret'].append('only %d of 4 worlds executed' % n_worlds)

    def fmt(k, okmsg):
        return '; '.join(sorted(set(bad[k]))[:2]) if bad[k] else okmsg
    for fname in ('get_hess', 'get_grad'):
        rep.ob('R-SPACE', 'get_godambe %s' % fname, not [b for b in bad['space'] if fname in b], fmt('space', 'differentiates func at p0, or log_func at log(p0)'), rel, g.lineno,
               what='function and expansion point are in the same parameter space')
        rep.ob('R-ARGS', 'get_godambe %s' % fname, not [b for b in bad['args'] if fname in b], fmt('args', 'args=%s eps=eps' % ('[data]' if fname == 'get_hess' else '[Spectrum(boot), theta_adjust]')), rel, g.lineno,
               what='data/bootstrap and theta adjustment reach the likelihood')
    rep.ob('R-SPACE', 'get_godambe log switch', not bad['space'], fmt('space', 'the log wrapper is differentiated exactly in log mode'), rel, g.lineno, what='log switch selects the log wrapper only in log mode')
    rep.ob('R-SPACE', 'get_godambe.log_func', not bad['logf'], fmt('logf', 'log wrapper evaluates the likelihood at exp(parameters) with the same data and theta adjustment'), rel, g.lineno,
           what='log wrapper exponentiates and forwards data and theta_adjust')
    fu = prog.func(GOD, 'get_godambe.func')
    rep.ob('R-FLOW', 'get_godambe.func', not bad['func'], fmt('func', 'Inference.ll(theta_adjust * cached model, data)'), rel, fu.lineno, what='likelihood of the theta-adjusted cached model against the given data')
    rule_key(rep, prog, m, fu, 'cache', enclosing=g)
    rep.ob('R-ORD', 'get_godambe bootstrap loop', not bad['ord'], fmt('ord', 'J and cU are sums over the bootstraps of a term of that bootstrap'), rel, g.lineno,
           what='only the accumulators J and cU are carried between bootstraps')
    for acc in ('J', 'cU'):
        rep.ob('R-ORD', 'get_godambe accumulator %s' % acc, not [b for b in bad['ord'] if acc in b], fmt('ord', '%s = zeros + sum of its term' % acc), rel, g.lineno,
               what='accumulator updated as X = X + term(bootstrap): order independent')
    rep.ob('R-IDX', 'get_godambe bootstrap loop', not bad['zip'], fmt('zip', 'iterates zip(all_boot, boot_theta_adjusts)'), rel, g.lineno, what='bootstraps zipped with their theta adjustments')
    for acc in ('J', 'cU'):
        rep.ob('R-ALG', 'get_godambe %s normalisation' % acc, not [b for b in bad['norm'] if ' %s = ' % acc in b], fmt('norm', '%s / len(all_boot)' % acc), rel, g.lineno,
               what='%s divided by the number of bootstraps exactly once, after the loop' % acc)
    rep.ob('R-ALG', 'get_godambe J term', not bad['jterm'], fmt('jterm', 'outer(g, g) of the bootstrap gradient'), rel, g.lineno, what='J accumulates outer(g, g)')

    def alloc_shape(fn_, name):
        for n_ in own_nodes(fn_):
            if isinstance(n_, ast.Assign) and ast.unparse(n_.targets[0]) == name and isinstance(n_.value, ast.Call) and _last(dotted(n_.value.func)) in ('zeros', 'empty', 'ones'):
                a0 = n_.value.args[0]
                return tuple(ast.unparse(x) for x in a0.elts) if isinstance(a0, (ast.Tuple, ast.List)) else (ast.unparse(a0),)
        return None
    sh_g = alloc_shape(prog.func(GOD, 'get_grad'), 'grad')
    rep.ob('R-SHAPE', 'get_godambe score accumulator', sh_g == ('len(p0)', '1') and not bad['shape'], 'get_grad allocates %s; %s' % (sh_g, fmt('shape', 'cU is allocated (len(p0), 1)')), rel, g.lineno,
           what='the summed score has the shape of one gradient (no silent broadcasting of a column against a flat vector)')
    rep.ob('R-ALG', 'get_godambe G', not bad['G'], fmt('G', 'godambe = H . inv(J) . H'), rel, g.lineno, what='G = H J^-1 H')
    rep.ob('R-FLOW', 'get_godambe return', not bad['ret'], fmt('ret', 'returns (G, H, J, cU), or H alone for just_hess'), rel, g.lineno, what='returns (G, H, J, cU), or H alone for just_hess')
    # consumers
    lrt = prog.func(GOD, 'LRT_adjust')
    s = single_assignments(lrt)
    adj = s.get('adjust')
    if adj is None:
        # direct form `return len(...)/trace(...)` (also the canonical form of `adjust = ...; return adjust`)
        rr = [n.value for n in lrt.body if isinstance(n, ast.Return) and n.value is not None]
        adj = rr[-1] if rr else None
    got = mat(adj, None) if adj is not None else None
    rep.ob('R-ALG', 'LRT_adjust', got == ('/', ('len', 'nested_indices'), ('trace', ('dot', ['J', ('inv', 'H')]))), 'adjust = %s' % (got,), rel, lrt.lineno,
           what='adjust = len(nested)/trace(J H^-1)')
    wald = prog.func(GOD, 'Wald_stat')
    s = single_assignments(wald)
    for nm, M in (('wald_adj', 'GIM'), ('wald_org', 'H')):
        got = mat(s.get(nm), None) if s.get(nm) is not None else None
        rep.ob('R-ALG', 'Wald_stat %s' % nm, got == ('dot', [('transpose', 'param_diff'), M, 'param_diff']), '%s = %s' % (nm, got), rel, wald.lineno, what='delta^T %s delta' % M)
    pdiff = s.get('param_diff')
    rep.ob('R-ALG', 'Wald_stat delta', pdiff is not None and ast.unparse(pdiff) == 'full_params - p_nested', 'param_diff = %s' % (ast.unparse(pdiff) if pdiff is not None else None),
           rel, wald.lineno, what='delta = full - nested')
    sc = prog.func(GOD, 'score_stat')
    s = single_assignments(sc)
    for nm, M in (('score_adj', 'J'), ('score_org', 'H')):
        got = mat(s.get(nm), None) if s.get(nm) is not None else None
        rep.ob('R-ALG', 'score_stat %s' % nm, got == ('dot', [('transpose', 'cU'), ('inv', M), 'cU']), '%s = %s' % (nm, got), rel, sc.lineno, what='cU^T %s^-1 cU' % M)
    # unpacking of get_godambe's result in the consumers
    for fnn in ('GIM_uncert', 'LRT_adjust', 'Wald_stat', 'score_stat'):
        f = prog.func(GOD, fnn)
        un = [n for n in own_nodes(f) if isinstance(n, ast.Assign) and isinstance(n.value, ast.Call) and dotted(n.value.func) == 'get_godambe']
        ok = bool(un) and isinstance(un[0].targets[0], ast.Tuple) and len(un[0].targets[0].elts) == 4 and all(isinstance(e, ast.Name) for e in un[0].targets[0].elts)
        if ok:
            # a position whose value is used afterwards must carry the name the other rules know it by; an unused position may be
            # bound to any placeholder
            later = {n_.id for n_ in own_nodes(f) if isinstance(n_, ast.Name) and isinstance(n_.ctx, ast.Load) and getattr(n_, 'lineno', 0) > un[0].end_lineno}
            for e_, canon_ in zip(un[0].targets[0].elts, ['GIM', 'H', 'J', 'cU']):
                if e_.id in later and e_.id != canon_:
                    ok = False
                if canon_ in later and e_.id != canon_:
                    ok = False
        rep.ob('R-IDX', '%s unpack' % fnn, ok, ast.unparse(un[0].targets[0]) if un else 'no call', rel, un[0].lineno if un else f.lineno, what='(G, H, J, cU) unpacked in order')
        if un:
            b, problems = bind_call(g, un[0].value)
            rep.ob('R-SIG', '%s -> get_godambe' % fnn, not problems, '; '.join(problems) or 'call conforms', rel, un[0].lineno, what='call conforms to get_godambe')
            for k in ('grid_pts', 'all_boot', 'data', 'eps'):
                rep.ob('R-ARGS', '%s -> get_godambe' % fnn, k in b and ast.unparse(b[k]) == k, '%s=%s' % (k, ast.unparse(b[k]) if k in b else None), rel, un[0].lineno, what='slot ' + k)
    # five multinom theta-augmentation clones
    core = ['func_multi = func_ex', 'model = func_multi(p0, data.sample_sizes, grid_pts)', 'theta_opt = Inference.optimal_sfs_scaling(model, data)',
            'p0 = list(p0) + [theta_opt]', 'func_ex = lambda p, ns, pts: p[-1] * func_multi(p[:-1], ns, pts)']
    blocks = {}
    for fnn in ('GIM_uncert', 'FIM_uncert', 'LRT_adjust', 'Wald_stat', 'score_stat'):
        f = prog.func(GOD, fnn)
        ifs = [n for n in f.body if isinstance(n, ast.If) and ast.unparse(n.test) == 'multinom']
        if len(ifs) != 1:
            raise AnalysisError('anchor vanished: `if multinom:` block of %s' % fnn)
        stm = [ast.unparse(x) for x in ifs[0].body if not isinstance(x, ast.If)]
        blocks[fnn] = stm
    ref = [s_ for s_ in blocks['FIM_uncert']]

    def block_values(fnn):
        """what the `if multinom:` block leaves in func_ex, p0 and theta_opt, as expressions of the values on entry (straight-line
        symbolic evaluation: temporaries, helper results and the order of independent statements do not matter)"""
        f = prog.func(GOD, fnn)
        blk = [n for n in f.body if isinstance(n, ast.If) and ast.unparse(n.test) == 'multinom'][0].body
        env = {}

        def val(e):
            from sa.srcmodel import clone

            class T(ast.NodeTransformer):
                def __init__(self, shadow=()):
                    self.shadow = set(shadow)

                def visit_Lambda(self, n):
                    own = {a.arg for a in n.args.args}
                    return ast.Lambda(args=n.args, body=T(self.shadow | own).visit(n.body))

                def visit_Name(self, n):
                    if isinstance(n.ctx, ast.Load) and n.id in env and n.id not in self.shadow:
                        return clone(env[n.id])
                    return n
            return T().visit(clone(e))
        for st in blk:
            if isinstance(st, ast.If):
                continue
            if not (isinstance(st, ast.Assign) and len(st.targets) == 1):
                return None
            t = st.targets[0]
            if isinstance(t, ast.Name):
                env[t.id] = val(st.value)
            elif isinstance(t, ast.Tuple) and isinstance(st.value, ast.Tuple) and len(t.elts) == len(st.value.elts) and all(isinstance(x, ast.Name) for x in t.elts):
                new_ = [val(v) for v in st.value.elts]
                for x, v in zip(t.elts, new_):
                    env[x.id] = v
            else:
                return None
        return {k: ast.unparse(env[k]).replace(' ', '') for k in ('func_ex', 'p0', 'theta_opt') if k in env}
    WANT = {'func_ex': 'lambdap,ns,pts:p[-1]*func_ex(p[:-1],ns,pts)',
            'p0': 'list(p0)+[Inference.optimal_sfs_scaling(func_ex(p0,data.sample_sizes,grid_pts),data)]',
            'theta_opt': 'Inference.optimal_sfs_scaling(func_ex(p0,data.sample_sizes,grid_pts),data)'}
    values = {}
    for fnn, stm in blocks.items():
        sub = [s_ for s_ in stm if s_ in ref]
        okb = sub == ref and len(ref) == 5
        detb = 'block = %s' % stm
        if not okb:
            bv = block_values(fnn)
            values[fnn] = bv
            if bv is None:
                detb = 'theta augmentation not found in the form the rule follows: ' + detb[:200]
            else:
                wrong = {k: v for k, v in bv.items() if WANT.get(k) != v}
                missing = [k for k in ('func_ex', 'p0') if k not in bv]
                okb = not wrong and not missing
                detb = ('after the block: %s' % wrong) if wrong else ('the block does not set %s' % missing if missing else
                                                                      'the block leaves func_ex = p[-1]*func_ex(p[:-1]), p0 = p0 + [optimal theta of func_ex(p0)] like its siblings')
        rep.ob('R-TPL', '%s theta augmentation' % fnn, okb, detb, rel, prog.func(GOD, fnn).lineno,
               what='multinomial theta augmentation identical to the sibling implementations')
    # the augmentation itself: theta appended last and used as p[-1] multiplying the model of p[:-1]
    lam = [n for n in ast.walk(prog.func(GOD, 'FIM_uncert')) if isinstance(n, ast.Lambda)]
    ok = bool(lam) and ast.unparse(lam[0].body) == 'p[-1] * func_multi(p[:-1], ns, pts)' and 'p0 = list(p0) + [theta_opt]' in ref
    if not ok:
        bv = block_values('FIM_uncert')
        ok = bv is not None and bv.get('func_ex') == WANT['func_ex'] and bv.get('p0') == WANT['p0']
    rep.ob('R-IDX', 'theta augmentation', ok, 'theta appended last; model = p[-1]*func(p[:-1])', rel, prog.func(GOD, 'FIM_uncert').lineno, what='theta is the last parameter on both sides')


def run(rep, prog, tier):
    m = prog.mod(GOD)
    rep.saw_file(m.rel)
    for q in ('hessian_elem', 'get_hess', 'get_grad', 'get_godambe', 'get_godambe.func', 'get_godambe.log_func', 'GIM_uncert', 'FIM_uncert',
              'LRT_adjust', 'LRT_adjust.diff_func', 'sum_chi2_ppf', 'Wald_stat', 'Wald_stat.diff_func', 'score_stat', 'score_stat.diff_func'):
        fn = prog.func(GOD, q)
        generic.rule_name(rep, prog, m, fn)
        generic.rule_def(rep, m, fn)
        generic.rule_sig(rep, prog, m, fn)
    check_stencils(rep, prog, m)
    check_assembly(rep, prog, m)
    # diff_func clones: nested parameters are written into a float copy of p0
    for fnn in ('LRT_adjust', 'Wald_stat', 'score_stat'):
        d = prog.func(GOD, fnn + '.diff_func')
        txt = [ast.unparse(x) for x in d.body if not (isinstance(x, ast.Expr) and isinstance(x.value, ast.Constant))]
        first = next((x for x in d.body if isinstance(x, ast.Assign) and isinstance(x.targets[0], ast.Name)), None)
        if first is not None and first.targets[0].id != 'full_params' and not any(isinstance(n_, ast.Name) and n_.id == 'full_params' for n_ in ast.walk(d)):
            # the working copy may have any local name
            txt = [re.sub(r'\b%s\b' % re.escape(first.targets[0].id), 'full_params', t_) for t_ in txt]
        ok = txt == ['full_params = numpy.array(p0, copy=True, dtype=float)', 'full_params[nested_indices] = diff_params', 'return func_ex(full_params, ns, grid_pts)']
        rep.ob('R-TPL', '%s.diff_func' % fnn, ok, '; '.join(txt), m.rel, d.lineno, what='nested parameters substituted into a float copy of p0')
    rep.floor('R-ALG', 30)
    rep.floor('R-DEF', 15)
    rep.floor('R-KEY', 2)
