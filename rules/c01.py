"""C01 - one-population spectra agree with theory: the statically decidable part (DESIGN.md C01).

What is decided here is the *consistency of the formulas*: the closed-form equilibrium densities are stationary solutions of
the very diffusion operator (M, V) the integrator discretises, with the mutation normalisation of the injection step, in all
numerical regimes; the regimes join continuously; and the one-population pipeline (coefficients, kernel, driver, injection,
sampling, extrapolation, model wiring, scaling degrees) satisfies the structural rules of C02/C03/C04/C05/C07/C15 restricted to
the constructs the one-population path goes through.  Convergence rates and the 1.5% bound are numerical and are not decided."""
import ast, re
from fractions import Fraction
from sa.algebra import Rat, Poly, Translator, AlgebraError, parse_expr, diff, exp_of
from sa.srcmodel import own_nodes, dotted, positional_params
from sa.report import AnalysisError, Scoped
from sa.cfront import CProgram
from sa.extract import straightline, single_assignments, inline, names_in

EXPLANATION = (
    "Static consistency of the one-population theory anchors. (1) R-ALG equilibrium: the formulas in PhiManip.phi_1D_snm / "
    "phi_1D_genic / phi_1D are translated to exact rational functions over exp-atoms and shown to satisfy d/dx[M phi - 1/2 "
    "d/dx(V phi)] == 0 with M and V taken from Integration._Mfunc1D/_Vfunc (which C02's rules tie to the C kernels), with "
    "V*phi -> theta0 at x -> 0 (the normalisation that matches the theta0/2 influx of _inject_mutations_1D); the effective "
    "selection coefficient equals M/V (how nu and beta enter); for general h the exponent Q of the quadrature form satisfies "
    "Q' == 2M/V, Q(0) == 0, prefactor/integrand/bounds pair up, and both numerator variants use the same Q. (2) regime "
    "joins: the gamma -> 0 limit of the genic form is the neutral form, its x -> 1 limit is the stored boundary value, the "
    "overflow-guard forms are the main forms with the vanishing exponential dropped (relative error exp(-2|threshold|) < "
    "1e-15), the genic closed form is the h = 1/2 instance of the quadrature form; dispatch calls pass the same arguments. "
    "(3) time step: dt is proportional to the module-level Integration.timescale_factor read at call time (not captured in "
    "a default or alias), its stability bound uses the maxima of the same V and M. (4) the one-population constructs of "
    "C02 (coefficients, kernel, Thomas solver, pyx glue, driver), C03 (scaling degrees), C04 (injection, telescoping), C05 "
    "(sampling 1D, dispatch), C07 (extrapolation) and C15 (Demographics1D / DFE models wiring) hold."
    ' The general-h form is decided on values: phi_1D is executed abstractly in three worlds (gamma < 0 without / with the overflow shift, gamma >= 0), quadratures are opaque numbers that remember integrand and bounds, cells are rational part x exp(exponent).'
    ' R-CTYPE: no quotient of two integer-typed operands in the C coefficient functions of the compiled one-population driver.')
TECHNIQUE = "exact rational-function algebra with exp-atoms (differentiation, L'Hopital limits) on formulas extracted from the AST + scoped reuse of the sibling/degree/dispatch rules"
DECLINED = ["convergence order in the time step and the 1.5% bound (numerical)", "agreement with the coalescent expectation for piecewise-constant histories (numerical)",
            "finiteness / non-negativity of the quadrature branch in floating point", "accuracy of scipy.integrate.quad"]

PM = 'dadi.PhiManip'
INT = 'dadi.Integration'
K = '4*beta/(beta + 1)**2'


# ------------------------------------------------------------------------------------------------------------------
# algebra helpers
def clear_neg(r):
    """numerator and denominator polynomials of r with all negative atom powers multiplied away"""
    n, d = r.n, r.den_poly()
    low = {}
    for p in (n, d):
        for m in p.t:
            for k, e in m:
                if e < low.get(k, 0):
                    low[k] = e
    if low:
        mono = Poly({tuple(sorted((k, -e) for k, e in low.items())): Fraction(1)})
        n, d = n * mono, d * mono
    return n, d


def value_at(r, mapping, var=None, depth=3):
    """value of r after substituting `mapping` (atom -> Rat); when numerator and denominator both vanish, apply
    L'Hopital's rule with respect to `var` (up to `depth` times).  Returns a Rat or raises AlgebraError."""
    n, d = clear_neg(r)
    for _ in range(depth + 1):
        nv, dv = Rat(n).subs(mapping), Rat(d).subs(mapping)
        if not dv.is_zero():
            return nv / dv
        if not nv.is_zero():
            raise AlgebraError('expression diverges at the point')
        if var is None:
            raise AlgebraError('0/0 and no variable for L\'Hopital')
        n2, d2 = diff(Rat(n), var), diff(Rat(d), var)
        a, b = clear_neg(n2)
        c, e = clear_neg(d2)
        # n2/d2 = (a/b)/(c/e) = a*e/(b*c)
        n, d = a * e, b * c
    raise AlgebraError('limit not resolved')


def temporaries(fn, rescaled='gamma'):
    """single-assignment locals of fn that may be inlined into a formula (not those computed from the parameter that is
    rescaled later in the function, before the rescaling)"""
    resc = [n.lineno for n in fn.body if isinstance(n, ast.Assign) and ast.unparse(n.targets[0]) == rescaled]
    out = {}
    for k, v in single_assignments(fn).items():
        if isinstance(v, ast.Lambda) or k in ('phi', 'xx'):
            continue
        if any(isinstance(c, ast.Call) and (dotted(c.func) or '').split('.')[-1] not in ('exp', 'log', 'sqrt', 'float') for c in ast.walk(v)):
            continue        # array constructors, quadrature results ... stay symbolic
        if isinstance(v, ast.Attribute) or isinstance(v, ast.Name):
            if not (isinstance(v, ast.Attribute) and v.attr in ('exp', 'log', 'sqrt')):
                continue
        if rescaled in names_in(v) and resc and v.lineno < resc[0]:
            continue
        out[k] = v
    return out


def tr_formula(expr, rename, singles=None):
    """translate a numpy expression on the grid into a Rat in x: xx, xx[1:-1] -> x; names renamed by `rename`"""
    if singles:
        expr = inline(expr, singles)
    def ih(T, e):
        if isinstance(e.value, ast.Name) and e.value.id == 'xx' and isinstance(e.slice, ast.Slice):
            return Rat.atom('x')
        return None

    def nh(n):
        if n == 'xx':
            return Rat.atom('x')
        if n in rename:
            return Rat.atom(rename[n])
        return None

    def ch(T, e, fn):
        if fn == 'exp' and len(e.args) == 1:     # local alias `exp = numpy.exp`
            return exp_of(T.tr(e.args[0]))
        return None
    return Translator({}, index_hook=ih, name_hook=nh, call_hook=ch).tr(expr)


def guard_chain(node, fn):
    """conditions (text, polarity) of the if statements enclosing node inside fn"""
    out = []
    p = getattr(node, '_parent', None)
    child = node
    while p is not None and p is not fn:
        if isinstance(p, ast.If):
            out.append((ast.unparse(p.test), child in p.body))
        child, p = p, getattr(p, '_parent', None)
    return out


def py_ret(prog, mod, q):
    e, r = straightline(prog.func(mod, q), None)
    if r is None:
        raise AnalysisError('%s.%s does not return a formula' % (mod, q))
    return r


# ------------------------------------------------------------------------------------------------------------------
def check_equilibrium(rep, prog):
    m = prog.mod(PM)
    rep.saw_file(m.rel)
    x, g = Rat.atom('x'), Rat.atom('g')
    # the operator the integrator discretises (Python twins; C02's rules -- re-used below -- tie them to the C code)
    V = py_ret(prog, INT, '_Vfunc')            # in x, nu, beta
    M = py_ret(prog, INT, '_Mfunc1D')          # in x, gamma, h
    Kr = parse_expr(K)
    geff_ref = Rat.atom('gamma') * Rat.atom('nu') * Kr         # gamma*nu*4beta/(beta+1)^2
    rep.ob('R-ALG', 'Integration M/V at h=1/2', M.subs({'h': Rat.const(Fraction(1, 2))}).equals(geff_ref * V), 'M(h=1/2) == gamma*nu*4beta/(beta+1)^2 * V', 'dadi/Integration.py',
           prog.func(INT, '_Vfunc').lineno, what='selection relative to drift is the constant gamma*nu*4beta/(beta+1)^2 for genic selection')
    # g -> gamma substitution that expresses M/V through the effective coefficient g = gamma*nu*K
    gamma_of_g = {'gamma': g / (Rat.atom('nu') * Kr)}

    def stationary(F, Mx, Vx):
        J = Mx * F - diff(Vx * F, 'x') / Rat.const(2)
        return diff(J, 'x')

    Vg = V                                      # V(x; nu, beta)
    Mg_genic = g * V                            # M = g*V   (definition of g)

    # ---------------- neutral --------------------------------------------------------------------------------------
    fn = prog.func(PM, 'phi_1D_snm')
    tmp = temporaries(fn)
    rep.saw_function(m.rel + ':phi_1D_snm')
    forms = []
    for n in own_nodes(fn):
        if isinstance(n, ast.Assign) and len(n.targets) == 1 and ast.unparse(n.targets[0]) in ('phi', 'phi[1:]') and 'xx' in ast.unparse(n.value) and ast.unparse(n.value) != '0 * xx':
            forms.append(n)
    rets = [n for n in own_nodes(fn) if isinstance(n, ast.Return)]
    okn = len(forms) == 2 and len(rets) == 1
    snm_full = None
    try:
        scale = tr_formula(rets[0].value, {}, tmp) / Rat.atom('phi')
        fs = [tr_formula(n.value, {}, tmp) * scale for n in forms]
        okn = okn and fs[0].equals(fs[1])
        snm_full = fs[0]
        st = stationary(snm_full, Rat.const(0), Vg)
        rep.ob('R-ALG', 'phi_1D_snm stationarity', okn and st.is_zero(), 'phi = %s; d/dx[-1/2 d/dx(V phi)] = %s' % (snm_full.canon(), st.canon()), m.rel, fn.lineno,
               what='neutral density is a stationary solution of the drift operator')
        v0 = value_at(Vg * snm_full, {'x': Rat.const(0)})
        rep.ob('R-ALG', 'phi_1D_snm normalisation', v0.equals(Rat.atom('theta0')), 'V*phi at x=0 is %s' % v0.canon(), m.rel, fn.lineno, what='V*phi -> theta0 at x -> 0 (theta0/2 influx)')
        flux = Rat.const(0) - diff(Vg * snm_full, 'x') / Rat.const(2)
        rep.ob('R-ALG', 'phi_1D_snm flux', flux.equals(Rat.atom('theta0') / Rat.const(2)), 'probability flux = %s' % flux.canon(), m.rel, fn.lineno, what='constant flux theta0/2 equal to the mutation influx')
    except (AlgebraError, IndexError) as e:
        rep.ob('R-ALG', 'phi_1D_snm stationarity', False, 'formula not recognised: %s' % e, m.rel, fn.lineno, what='neutral density is a stationary solution of the drift operator')
    kl = [ast.unparse(n.targets[0]) + ' = ' + ast.unparse(n.value) for n in own_nodes(fn) if isinstance(n, ast.Assign) and ast.unparse(n.targets[0]) == 'phi[0]']
    rep.ob('R-TPL', 'phi_1D_snm x=0 kludge', kl == ['phi[0] = phi[1]'], 'statements %s' % kl, m.rel, fn.lineno, what='the divergent x=0 entry copies its neighbour (documented)')

    # ---------------- genic ---------------------------------------------------------------------------------------------
    fn = prog.func(PM, 'phi_1D_genic')
    tmp = temporaries(fn)
    rep.saw_function(m.rel + ':phi_1D_genic')
    genic = {}
    try:
        # effective coefficient
        ge = [n for n in fn.body if isinstance(n, ast.Assign) and ast.unparse(n.targets[0]) == 'gamma']
        okg = len(ge) == 1 and Translator().tr(ge[0].value).equals(geff_ref)
        rep.ob('R-ALG', 'phi_1D_genic effective gamma', okg, '`%s`; M/V = %s' % (ast.unparse(ge[0]) if ge else '?', geff_ref.canon()), m.rel, ge[0].lineno if ge else fn.lineno,
               what='effective selection coefficient equals M/V of the integrator (nu and beta dependence)')
        rets = [n for n in own_nodes(fn) if isinstance(n, ast.Return) and (ast.unparse(n.value).startswith('phi *') or ast.unparse(n.value) == 'phi')]
        if len(rets) != 1:
            raise AlgebraError('expected exactly one `return phi [* scale]`')
        scale = tr_formula(rets[0].value, {}, tmp) / Rat.atom('phi')       # 1 when the factor is folded into the formulas
        okpos = bool(ge) and rets[0].lineno > ge[0].lineno
        forms = {}
        for n in own_nodes(fn):
            if isinstance(n, ast.Assign) and ast.unparse(n.targets[0]) in ('phi', 'phi[1:-1]') and 'exp' in ast.unparse(n.value):
                gc = guard_chain(n, fn)
                regime = [pol for (t, pol) in gc if t.startswith('gamma >')]
                thr = [t for (t, pol) in gc if t.startswith('gamma >')]
                if len(regime) != 1:
                    raise AlgebraError('formula outside a gamma regime guard')
                forms.setdefault('main' if regime[0] else 'overflow', []).append((n, thr[0]))
        okc = sorted(len(v) for v in forms.values()) == [2, 2] and set(forms) == {'main', 'overflow'}
        if set(forms) != {'main', 'overflow'}:
            raise AlgebraError('the main and the overflow formula were not both found')
        R = {}
        for reg, lst in forms.items():
            fs = [tr_formula(n.value, {'gamma': 'g'}, tmp) * scale for n, _ in lst]
            okc = okc and all(f.equals(fs[0]) for f in fs)
            R[reg] = fs[0]                                      # the full density (formula times final factor)
        rep.ob('R-TWIN', 'phi_1D_genic grid variants', okc, 'the full-grid and interior-slice copies of each regime are the same formula', m.rel, fn.lineno, what='both grid variants use one formula per regime')
        one = Rat.const(1)
        th0 = Rat.atom('theta0')
        at0 = {'x': Rat.const(0), 'exp(g*x)': one}
        at1 = {'x': one, 'exp(g*x)': Rat.atom('exp(g)')}
        for reg in ('main', 'overflow'):
            F = R[reg]
            st = stationary(F, Mg_genic, Vg)
            rep.ob('R-ALG', 'phi_1D_genic %s stationarity' % reg, st.is_zero() and okpos, 'd/dx[M phi - 1/2 d/dx(V phi)] = %s' % st.canon()[:120], m.rel, forms[reg][0][0].lineno,
                   what='closed form is a stationary solution with M = g V')
            r0 = value_at(F * Vg, at0, var='x')
            rep.ob('R-ALG', 'phi_1D_genic %s normalisation' % reg, r0.equals(th0), 'V*phi at x=0 is %s' % r0.canon(), m.rel, forms[reg][0][0].lineno, what='V*phi -> theta0 at x -> 0 (theta0/2 influx)')
        r1 = value_at(R['main'] * Vg, at1, var='x')
        rep.ob('R-ALG', 'phi_1D_genic main absorbing end', r1.is_zero(), 'V*phi at x=1 is %s' % r1.canon(), m.rel, forms['main'][0][0].lineno, what='V*phi -> 0 at x -> 1 (finite density at fixation)')
        # overflow branch == main branch with the vanishing exponentials dropped:  exp(g*x) = exp(g)/r, r = exp(g(1-x)) -> 0, exp(g) -> 0
        ratio = (R['main'] / R['overflow']).subs({'exp(g*x)': Rat.atom('exp(g)') / Rat.atom('r')})
        lim = value_at(ratio, {'exp(g)': Rat.const(0), 'r': Rat.const(0)})
        rep.ob('R-ALG', 'phi_1D_genic overflow regime', lim.equals(one), 'main/overflow -> %s as exp(2g), exp(2g(1-x)) -> 0' % lim.canon(), m.rel, forms['overflow'][0][0].lineno,
               what='guard form is the asymptote of the main form')
        thr = {t for lst in forms.values() for _, t in lst}
        okt = len(thr) == 1
        if okt:
            cmp_ = ast.parse(list(thr)[0], mode='eval').body
            tv = Translator().tr(cmp_.comparators[0])
            okt = tv.is_const() and tv.const_value() <= -18
        rep.ob('R-DOM', 'phi_1D_genic overflow threshold', okt, 'regime guards %s' % sorted(thr), m.rel, fn.lineno, what='switch where exp(-2|g|) < 1e-15 so the two forms agree to round-off')
        # boundary value at x = 1 (scaled by the final factor when it is stored before the return)
        lims = {}
        for n in own_nodes(fn):
            if isinstance(n, ast.Assign) and ast.unparse(n.targets[0]) == 'limit':
                gc = [(t, pol) for (t, pol) in guard_chain(n, fn) if t.startswith('gamma <')]
                if len(gc) != 1:
                    raise AlgebraError('limit outside a regime guard')
                lims['main' if gc[0][1] else 'large'] = (n, gc[0][0])
        st_ = [n for n in own_nodes(fn) if isinstance(n, ast.Assign) and ast.unparse(n.targets[0]) == 'phi[-1]']
        if len(st_) != 1 or set(lims) != {'main', 'large'}:
            raise AlgebraError('boundary value at x=1 not found')
        stored = tr_formula(st_[0].value, {'gamma': 'g'}, tmp) * scale
        L1 = value_at(R['main'], at1, var='x')
        Lm = stored.subs({'limit': tr_formula(lims['main'][0].value, {'gamma': 'g'}, tmp)})
        rep.ob('R-ALG', 'phi_1D_genic x=1 limit', Lm.equals(L1), 'stored %s; l\'Hopital limit of the density %s' % (Lm.canon(), L1.canon()), m.rel, lims['main'][0].lineno,
               what='boundary value is the x -> 1 limit of the closed form')
        Ll = stored.subs({'limit': tr_formula(lims['large'][0].value, {'gamma': 'g'}, tmp)})
        rl = value_at((Ll / Lm).subs({'exp(g)': Rat.const(1) / Rat.atom('s')}), {'s': Rat.const(0)})
        tv2 = Translator().tr(ast.parse(lims['main'][1], mode='eval').body.comparators[0])
        rep.ob('R-ALG', 'phi_1D_genic x=1 large-gamma form', rl.equals(one) and tv2.is_const() and tv2.const_value() >= 18, 'guard form / main form -> %s as exp(-2g) -> 0; guard `%s`' % (rl.canon(), lims['main'][1]),
               m.rel, lims['large'][0].lineno, what='large-gamma boundary value is the asymptote of the limit')
        # gamma -> 0 joins the neutral form
        F0 = value_at(R['main'], {'g': Rat.const(0), 'exp(g)': one, 'exp(g*x)': one}, var='g')
        okj = snm_full is not None and F0.equals(snm_full)
        rep.ob('R-ALG', 'phi_1D_genic gamma -> 0', okj, 'limit %s vs neutral %s' % (F0.canon(), snm_full.canon() if snm_full is not None else '?'), m.rel, forms['main'][0][0].lineno,
               what='the genic form tends to the neutral density as gamma -> 0')
        genic['full'] = R['main']
    except (AlgebraError, IndexError, KeyError, AttributeError) as e:
        rep.ob('R-ALG', 'phi_1D_genic structure', False, 'closed form not recognised: %s' % e, m.rel, fn.lineno, what='closed form is a stationary solution with M = g V')
    # dispatch gamma == 0 -> neutral
    check_dispatch_call(rep, m, fn, 'gamma == 0', 'phi_1D_snm', ['xx', 'nu', 'theta0'], {'beta': 'beta'}, before='gamma')

    # ---------------- general h -----------------------------------------------------------------------------------------
    fn = prog.func(PM, 'phi_1D')
    tmp = temporaries(fn)
    rep.saw_function(m.rel + ':phi_1D')
    check_dispatch_call(rep, m, fn, 'h == 0.5', 'phi_1D_genic', ['xx', 'nu', 'theta0', 'gamma'], {'beta': 'beta'}, before='gamma')
    general_h_by_value(rep, prog, m, fn, V, M, x, genic)


def general_h_by_value(rep, prog, m, fn, V, M, x, genic):
    """phi_1D for h != 1/2, decided on the values the function computes (rules/c01_phi1d.py): in every world (gamma < 0 plain,
    gamma < 0 with the overflow shift, gamma >= 0) the interior cells are  theta0 exp(Q(x)) int_x^1 exp(-Q) / int_0^1 exp(-Q) / V(x),
    Q' = 2M/V, Q(0) = 0, the first cell copies its neighbour, the last cell is the x -> 1 limit."""
    from rules import c01_phi1d as P
    from sa import miniexec as mx
    one = Rat.const(1)
    th0 = Rat.atom('theta0')
    line = fn.lineno
    res = {k: [] for k in ('exponent', 'origin', 'pulled', 'bounds', 'loop', 'assembly', 'scale', 'shift', 'last', 'first')}
    seen = {k: 0 for k in res}
    Qs, scales, n_paths = [], [], 0
    try:
        for sign, shifted in (('neg', False), ('neg', True), ('nonneg', False)):
            w = P.World(prog, m, fn, sign, shifted)
            tag = 'gamma < 0%s' % (', shifted' if shifted else '') if sign == 'neg' else 'gamma >= 0'
            for outcome, events, _dec in w.run():
                n_paths += 1
                f = P.analyse(w, outcome, events)
                r = f['interior'].rat
                qs = sorted(a for a in r.atoms() if a.startswith('QUAD'))
                num = [q for q in qs if q not in (r / Rat.atom(q)).atoms()]
                den = [q for q in qs if q not in (r * Rat.atom(q)).atoms()]
                seen['loop'] += 1
                if len(num) != 1 or len(den) != 1 or len(qs) != 2:
                    res['loop'].append('%s: interior cell is %s' % (tag, r.canon()[:80]))
                    continue
                kn, kd = int(num[0][4:]), int(den[0][4:])
                inst_n, inst_d = f['inst'].get(kn, []), f['inst'].get(kd, [])
                E0, a0, b0 = inst_d[0]
                En, an, bn = inst_n[0]
                # every evaluation of the same quadrature saw the same integrand and bounds
                same = all((e_ - E0).is_zero() and (a_ - a0).is_zero() and (b_ - b0).is_zero() for e_, a_, b_ in inst_d) and \
                    all((e_ - En).is_zero() and (a_ - an).is_zero() and (b_ - bn).is_zero() for e_, a_, b_ in inst_n)
                seen['bounds'] += 1
                if not (same and a0.is_zero() and (b0 - one).is_zero() and (an - x).is_zero() and (bn - one).is_zero()):
                    res['bounds'].append('%s: denominator over (%s, %s), numerator over (%s, %s)' % (tag, a0.canon(), b0.canon(), an.canon(), bn.canon()))
                if 'x' in E0.atoms():
                    res['exponent'].append('%s: the denominator integrand depends on the grid point' % tag)
                    continue
                E00 = E0.subs({'xi': Rat.const(0)})
                Q = (Rat.const(0) - (E0 - E00)).subs({'xi': x})
                Qs.append(Q)
                dQ = diff(Q, 'x')
                seen['exponent'] += 1
                if not (dQ * V).equals(Rat.const(2) * M):
                    res['exponent'].append("%s: Q' = %s; 2M/V = %s" % (tag, dQ.canon()[:70], (Rat.const(2) * M / V).canon()[:70]))
                is_shifted = not E00.is_zero()
                seen['origin'] += 1
                if is_shifted and sign != 'neg':
                    res['shift'].append('%s: the integrand is shifted by %s' % (tag, E00.canon()[:50]))
                seen['shift'] += 1
                # numerator integrand: exp(-Q(xi) + c(x))
                cx = En + Q.subs({'x': Rat.atom('xi')})
                seen['pulled'] += 1
                if 'xi' in cx.atoms():
                    res['pulled'].append('%s: numerator integrand exp(%s) is not exp(-Q(xi)) times a factor free of xi' % (tag, En.canon()[:80]))
                    continue
                seen['assembly'] += 1
                tot = f['interior'].expo + cx - E00 - Q
                if not tot.is_zero():
                    res['assembly'].append('%s: exponential factors leave exp(%s)' % (tag, tot.canon()[:80]))
                seen['scale'] += 1
                rr = r * Rat.atom(den[0]) / Rat.atom(num[0])
                if not (V * rr).equals(th0):
                    res['scale'].append('%s: V * phi / (exp(Q) num/den) = %s' % (tag, (V * rr).canon()[:80]))
                scales.append(f['coef'])
                # first cell
                seen['first'] += 1
                fc = f['first']
                if not (fc and fc[0] == 'neighbour' and fc[1] is not None and (fc[1].rat - f['interior'].rat).is_zero() and (fc[1].expo - f['interior'].expo).is_zero()):
                    res['first'].append('%s: first cell is %s' % (tag, 'not set after the interior' if fc is None else ('its neighbour before the interior was complete' if fc[0] == 'neighbour' else fc[1])))
                # last cell
                seen['last'] += 1
                lc = f['last']
                Kp = th0 * x * (one - x) / V
                if lc is None:
                    res['last'].append('%s: last cell is not set' % tag)
                elif lc[0] == 'min':
                    if not (is_shifted and sign == 'neg' and lc[1] == [-2, -1] and lc[2]):
                        res['last'].append('%s: last cell is the minimum of cells %s%s' % (tag, lc[1], '' if is_shifted else ' although the integrand is not shifted'))
                else:
                    lv = lc[1]
                    if not ((lv.rat * Rat.atom(den[0])).equals(Kp) and (lv.expo - E00).is_zero()):
                        res['last'].append('%s: last cell is %s' % (tag, lv.show()[:100]))
                if not is_shifted:
                    pass
                seen['origin'] += 0
    except (P.NotRecognised, AlgebraError, mx.Undecidable, KeyError, IndexError) as e:
        rep.ob('R-ALG', 'phi_1D structure', False, 'quadrature form not recognised: %s' % e, m.rel, line, what="the exponent of the quadrature form satisfies Q' = 2M/V with the integrator's M and V")
        return
    if n_paths < 3:
        rep.ob('R-ALG', 'phi_1D structure', False, 'quadrature form not recognised: %d paths' % n_paths, m.rel, line, what="the exponent of the quadrature form satisfies Q' = 2M/V with the integrator's M and V")
        return

    def ob(rule, construct, key, holds, what):
        bad = res[key]
        rep.ob(rule, construct, not bad and seen[key] >= 3, ('; '.join(bad)[:400]) if bad else '%s in all %d worlds (gamma < 0, gamma < 0 with overflow shift, gamma >= 0)' % (holds, seen[key]), m.rel, line, what=what)
    ob('R-ALG', 'phi_1D exponent', 'exponent', "Q' V = 2M for the exponent of the denominator integrand", "the exponent of the quadrature form satisfies Q' = 2M/V with the integrator's M and V")
    ob('R-ALG', 'phi_1D pulled-in integrand', 'pulled', 'numerator integrand is exp(-Q(xi)) times a factor free of xi', 'numerator and denominator integrate the same exp(-Q)')
    ob('R-TPL', 'phi_1D quadrature bounds', 'bounds', 'denominator over (0,1), numerator over (x,1)', 'denominator over (0,1); numerators over (x,1) with the matching integrand')
    ob('R-TPL', 'phi_1D quadrature loop', 'loop', 'cell i holds one numerator integral from x_i over one denominator integral', 'ints[i] is the integral from x_i')
    ob('R-ALG', 'phi_1D assembly', 'assembly', 'prefactor, pulled-in factor and shift combine to exp(Q(x))', 'phi*x(1-x) = exp(Q(x)) int_x^1 exp(-Q) / int_0^1 exp(-Q) in both variants')
    ob('R-DOM', 'phi_1D overflow shift', 'shift', 'the integrand is shifted only for gamma < 0 and the shift cancels', 'the overflow shift cancels between numerator and denominator and is absent when the prefactor is pulled in')
    ob('R-ALG', 'phi_1D scale', 'scale', 'V * phi = theta0 exp(Q) num/den', 'V * scale/(x(1-x)) == theta0 (normalisation of the quadrature form)')
    ob('R-ALG', 'phi_1D x=1 limit', 'last', 'last cell is theta0 x(1-x)/V / int_0^1 exp(-Q) (monotone fallback only when shifted)', 'lim_{x->1} exp(Q(x)) int_x^1 exp(-Q) / (x(1-x)) / int0 = 1/int0; monotone fallback when the integrand was shifted')
    ob('R-TPL', 'phi_1D x=0 kludge', 'first', 'first cell copies the finished neighbour', 'the divergent x=0 entry copies its neighbour (documented)')
    # h = 1/2 join: the genic closed form R solves (R e^{-Q})' = -c e^{-Q}, R(0) = 1, R(1) = 0 with Q at h = 1/2
    if 'full' in genic and Qs and scales and not any(res.values()):
        try:
            g = Rat.atom('g')
            Kr = parse_expr(K)
            # Q depends on gamma, nu and beta through the effective coefficient g = gamma*nu*K only (implied by Q' V = 2M); written in g
            Qg = Qs[0].subs({'gamma': g, 'nu': one, 'beta': one})
            if not Qs[0].subs({'gamma': g / (Rat.atom('nu') * Kr)}).equals(Qg):
                raise AlgebraError('Q is not a function of gamma*nu*4beta/(beta+1)^2')
            Qh = Qg.subs({'h': Rat.const(Fraction(1, 2))})
            eQ = exp_of(Rat.const(0) - Qh)
            Rg = genic['full'] * x * (one - x) / scales[0]
            c = diff(Rg * eQ, 'x') / eQ
            okh = 'x' not in c.atoms() and not any(a.startswith('exp(g*x') for a in c.atoms()) and value_at(Rg, {'x': Rat.const(0), 'exp(g*x)': one}).equals(one)
            rep.ob('R-ALG', 'phi_1D / phi_1D_genic join at h=1/2', okh, "(R exp(-Q))' exp(Q) = %s" % c.canon(), m.rel, line,
                   what='the genic closed form is the h = 1/2 instance of the quadrature form (same ODE, same boundary values, same scale)')
        except AlgebraError as e:
            rep.ob('R-ALG', 'phi_1D / phi_1D_genic join at h=1/2', False, 'not recognised: %s' % e, m.rel, line,
                   what='the genic closed form is the h = 1/2 instance of the quadrature form (same ODE, same boundary values, same scale)')


def check_dispatch_call(rep, m, fn, cond, callee, pos, kws, before=None):
    hit = None
    for n in fn.body:
        if isinstance(n, ast.If) and ast.unparse(n.test) == cond and len(n.body) == 1 and isinstance(n.body[0], ast.Return) and isinstance(n.body[0].value, ast.Call):
            hit = n
    ok = hit is not None
    det = 'no `if %s: return %s(...)`' % (cond, callee)
    if ok:
        c = hit.body[0].value
        got_pos = [ast.unparse(a) for a in c.args]
        got_kw = {k.arg: ast.unparse(k.value) for k in c.keywords}
        ok = dotted(c.func) == callee and got_pos == pos and got_kw == kws
        det = 'call %s' % ast.unparse(c)
        if before:
            reb = [s for s in fn.body if isinstance(s, ast.Assign) and ast.unparse(s.targets[0]) == before]
            ok = ok and all(s.lineno > hit.lineno for s in reb)
            det += '; %s is rescaled after the dispatch' % before
    rep.ob('R-ARGS', '%s dispatch `%s`' % (fn.name, cond), ok, det, m.rel, hit.lineno if hit else fn.lineno, what='the special case receives the unscaled arguments in the callee\'s order')


# ------------------------------------------------------------------------------------------------------------------
def check_timestep(rep, prog):
    m = prog.mod(INT)
    fn = prog.func(INT, '_compute_dt')
    rep.saw_function(m.rel + ':_compute_dt')
    # settings of the module: names bound to a literal at module level and read (not bound) inside a function
    settings = {}
    for st in m.tree.body:
        if isinstance(st, ast.Assign) and len(st.targets) == 1 and isinstance(st.targets[0], ast.Name) and isinstance(st.value, ast.Constant):
            settings[st.targets[0].id] = st
    readers = {}
    for f in ast.walk(m.tree):
        if isinstance(f, (ast.FunctionDef, ast.Lambda)):
            if isinstance(f, ast.FunctionDef):
                params = {a.arg for a in f.args.args + f.args.kwonlyargs}
                bound = {n.id for n in own_nodes(f) if isinstance(n, ast.Name) and isinstance(n.ctx, ast.Store)}
                globs = {g for n in own_nodes(f) if isinstance(n, ast.Global) for g in n.names}
                for n in own_nodes(f):
                    if isinstance(n, ast.Name) and isinstance(n.ctx, ast.Load) and n.id in settings and (n.id not in params | bound or n.id in globs):
                        readers.setdefault(n.id, set()).add(f.name)
    want = {'timescale_factor', 'use_delj_trick', 'use_old_timestep', 'old_timescale_factor'}
    if not want <= set(settings):
        raise AnalysisError('module settings of dadi.Integration not found: %s' % sorted(want - set(settings)))
    live = {s for s in settings if s in readers} | want
    rep.extra['module_settings'] = sorted(live)
    for s in sorted(live):
        bad = []
        for f in ast.walk(m.tree):
            if isinstance(f, (ast.FunctionDef, ast.Lambda)):
                for d in list(f.args.defaults) + [d for d in f.args.kw_defaults if d is not None]:
                    if any(isinstance(n, ast.Name) and n.id == s for n in ast.walk(d)):
                        bad.append('default of %s (line %d)' % (getattr(f, 'name', 'lambda'), f.lineno))
        for st in m.tree.body:
            if st is settings[s] or isinstance(st, (ast.FunctionDef, ast.ClassDef, ast.Import, ast.ImportFrom)):
                continue
            if any(isinstance(n, ast.Name) and n.id == s and isinstance(n.ctx, ast.Load) for n in ast.walk(st)):
                bad.append('module-level statement `%s`' % ast.unparse(st)[:60])
        for f in ast.walk(m.tree):
            if isinstance(f, ast.FunctionDef):
                globs = {g for n in own_nodes(f) if isinstance(n, ast.Global) for g in n.names}
                if s not in globs and any(isinstance(n, ast.Name) and n.id == s and isinstance(n.ctx, ast.Store) for n in own_nodes(f)):
                    bad.append('%s binds a local of the same name (shadows the setting)' % f.name)
                if s not in globs and s in {a.arg for a in f.args.args + f.args.kwonlyargs} and f.name != 'set_timescale_factor':
                    kwpass = True
                    # a parameter of the same name is fine when every in-module caller passes the module value explicitly (keyword idiom use_delj_trick=use_delj_trick)
                    if f.args.defaults and s in [a.arg for a in f.args.args[-len(f.args.defaults):]]:
                        bad.append('%s takes a parameter `%s` with a default (callers that omit it freeze the setting)' % (f.name, s))
        rep.ob('R-LATE', 'Integration.%s' % s, not bad, '; '.join(bad) if bad else 'read as a module global at call time by %s' % ', '.join(sorted(readers.get(s, ['(no function)'])))[:120], m.rel, settings[s].lineno,
               what='the setting is read when an integration runs, never captured at import/definition time')
    # dt proportional to timescale_factor; stability bound from the same V and M
    rets = [n for n in own_nodes(fn) if isinstance(n, ast.Return)]
    dts = [n for n in own_nodes(fn) if isinstance(n, ast.Assign) and ast.unparse(n.targets[0]) == 'dt']
    okp = False
    det = ''
    try:
        lin = [n for n in dts if 'maxVM' in ast.unparse(n.value)]
        e = Translator().tr(lin[0].value)
        okp = len(lin) == 1 and e.equals(Rat.atom('timescale_factor') / Rat.atom('maxVM')) and ast.unparse(rets[-1].value) == 'dt' and 'timescale_factor' in readers and '_compute_dt' in readers['timescale_factor']
        det = 'dt = %s' % ast.unparse(lin[0].value)
    except (AlgebraError, IndexError) as e_:
        det = 'not recognised: %s' % e_
    rep.ob('R-ALG', '_compute_dt proportionality', okp, det, m.rel, fn.lineno, what='dt = timescale_factor / max(V, M): the refinement knob scales every step linearly')
    okm = False
    det = ''
    try:
        mv = [n for n in own_nodes(fn) if isinstance(n, ast.Assign) and ast.unparse(n.targets[0]) == 'maxVM'][0].value
        if not (isinstance(mv, ast.Call) and dotted(mv.func) == 'max' and len(mv.args) == 3):
            raise AlgebraError('maxVM is not max(V, sum(ms), M)')
        V = py_ret(prog, INT, '_Vfunc')
        M = py_ret(prog, INT, '_Mfunc1D')
        half, quarter = Rat.const(Fraction(1, 2)), Rat.const(Fraction(1, 4))
        v_ok = Translator().tr(mv.args[0]).equals(V.subs({'x': half, 'beta': Rat.const(1)}))
        s_ok = ast.unparse(mv.args[1]) == 'sum(ms)'
        sel = mv.args[2]
        # abs(gamma) * 2*max(|.|*.., |.|*..): strip abs()
        class Strip(ast.NodeTransformer):
            def visit_Call(self, n):
                self.generic_visit(n)
                if dotted(n.func) in ('abs', 'numpy.abs') and len(n.args) == 1:
                    return n.args[0]
                return n
        from sa.srcmodel import clone
        sel2 = Strip().visit(clone(sel))
        inner = [n for n in ast.walk(sel2) if isinstance(n, ast.Call) and dotted(n.func) == 'max']
        cands = []
        for a in inner[0].args:
            c2 = clone(sel2)
            # replace the max call by one of its arguments
            class Rep(ast.NodeTransformer):
                def visit_Call(self, n, a=a):
                    if isinstance(n, ast.Call) and dotted(n.func) == 'max':
                        return a
                    return self.generic_visit(n)
            cands.append(Translator().tr(Rep().visit(c2)))
        m_ok = len(cands) == 2 and cands[0].equals(M.subs({'x': half})) and cands[1].equals(M.subs({'x': quarter}))
        okm = v_ok and s_ok and m_ok
        det = 'V(1/2)=%s, sum(ms), |M(1/2)|, |M(1/4)|' % Translator().tr(mv.args[0]).canon()
    except (AlgebraError, IndexError, AttributeError) as e_:
        det = 'not recognised: %s' % e_
    rep.ob('R-ALG', '_compute_dt stability bound', okm, det, m.rel, fn.lineno, what='the bound uses max V = V(1/2) and |M| at 1/2 and 1/4 of the integrator\'s own V and M')
    # the driver asks for a fresh dt in every step (time-dependent parameters)
    op = prog.func(INT, 'one_pop')
    loops = [n for n in op.body if isinstance(n, ast.While)]
    okl = len(loops) == 1 and any(isinstance(s, ast.Assign) and '_compute_dt(' in ast.unparse(s.value) for s in loops[0].body)
    rep.ob('R-DOM', 'one_pop time step recomputed', okl, '_compute_dt is called inside the time loop', m.rel, op.lineno, what='the step follows the current parameters')


# ------------------------------------------------------------------------------------------------------------------
ONE_POP_C02 = re.compile(r'^(C |Python )?(_?Vfunc(_beta)?|_?Mfunc1D|_?compute_(dx|xInt|dfactor|delj|abc_nobc)|tridiag\w*)\b|^_?one_pop\b|implicit_1Dx|^reference')
ONE_POP_C04 = re.compile(r'^reference flux|^_one_pop_const_params|^_inject_mutations_1D|^one_pop\b|implicit_1Dx|^Numerics\.trapz|^C compute_dx')
ONE_POP_C05 = re.compile(r'^_from_phi_1D_analytic|^Spectrum\._from_phi_1D_direct |^Spectrum\.from_phi arm 1D|^dadi/Spectrum_mod\.py:Spectrum\.from_phi$|^Spectrum\.from_phi (dimensions|labels)|^from_phi options')
ONE_POP_C15 = re.compile(r'^dadi/Demographics1D\.py:(snm_1d|two_epoch|growth|bottlegrowth_1d|three_epoch)\b(?!_)|^dadi/DFE/DemogSelModels\.py:(equil|two_epoch_sel)\b(?!_)')
ONE_POP_C03 = re.compile(r'(^|[:. ])(one_pop|_one_pop_const_params|_compute_dt|_compute_dfactor|_compute_delj|_Vfunc|_Mfunc1D|_inject_mutations_1D|phi_1D|phi_1D_genic|phi_1D_snm|ensure_1arg_func|'
                         r'implicit_1Dx|Vfunc|Vfunc_beta|Mfunc1D|compute_abc_nobc|compute_delj|compute_dfactor|compute_dx|compute_xInt)( result| density)?$')


def scoped(rep, rx):
    return Scoped(rep, lambda rule, construct, what: bool(rx.search(construct)))


def run(rep, prog, tier):
    for f_ in ('dadi/Integration.py:one_pop', 'dadi/Integration.py:_one_pop_const_params', 'dadi/Integration.py:_inject_mutations_1D', 'dadi/Integration.py:_Vfunc', 'dadi/Integration.py:_Mfunc1D',
               'dadi/Integration.py:_compute_dfactor', 'dadi/Numerics.py:linear_extrap', 'dadi/Numerics.py:quadratic_extrap', 'dadi/Numerics.py:cubic_extrap',
               'dadi/Spectrum_mod.py:Spectrum._from_phi_1D_analytic', 'dadi/Demographics1D.py:two_epoch', 'dadi/Demographics1D.py:growth', 'dadi/Demographics1D.py:three_epoch'):
        rep.saw_function(f_)
    check_equilibrium(rep, prog)
    check_timestep(rep, prog)
    n0 = len(rep.obls)
    from rules import c02, c03, c04, c05, c07, c15
    counts = {}
    # module-level helpers the one-population sampling methods call (a memoised table they share with the multi-population
    # methods, say) belong to the one-population path as well
    helpers = set()
    sm = prog.mod('dadi.Spectrum_mod')
    top_funcs = {n.name for n in sm.tree.body if isinstance(n, ast.FunctionDef)}
    for meth in ('Spectrum._from_phi_1D_analytic', 'Spectrum._from_phi_1D_direct'):
        if not prog.has_func('dadi.Spectrum_mod', meth):
            continue
        fn_ = prog.func('dadi.Spectrum_mod', meth)
        helpers |= {c.func.id for c in ast.walk(fn_) if isinstance(c, ast.Call) and isinstance(c.func, ast.Name) and c.func.id in top_funcs}
    rx_helpers = re.compile(r'^dadi/Spectrum_mod\.py:(%s)\b' % '|'.join(sorted(map(re.escape, helpers)))) if helpers else None
    for name, mod, rx_ in (('C02', c02, ONE_POP_C02), ('C03', c03, ONE_POP_C03), ('C04', c04, ONE_POP_C04), ('C05', c05, ONE_POP_C05), ('C07', c07, None), ('C15', c15, ONE_POP_C15)):
        extra = rx_helpers if name == 'C05' else None
        s = Scoped(rep, (lambda rule, construct, what, rx_=rx_, extra=extra: True if rx_ is None else bool(rx_.search(construct) or (extra is not None and extra.search(construct)))))
        mod.run(s, prog, tier)
        counts[name] = s.kept
    rep.extra['scoped_reuse'] = counts
    for name, floor in (('C02', 60), ('C03', 40), ('C04', 12), ('C05', 8), ('C07', 50), ('C15', 40)):
        if counts[name] < floor and not any(not o.ok for o in rep.obls):
            raise AnalysisError('scoped reuse of %s rules matched %d one-population constructs, fewer than the %d confirmed' % (name, counts[name], floor))
    # the compiled one-population driver evaluates the same M and V: C truncates quotients of integer operands (1/2 == 0)
    from rules.c02 import rule_c_intdiv
    rule_c_intdiv(rep, CProgram())
    rep.floor('R-ALG', 25)
    rep.floor('R-LATE', 4)
