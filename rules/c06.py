"""C06 - Splits, admixture, pulses, removal and reordering conserve marginal densities (DESIGN.md C06)."""
import ast, re
from fractions import Fraction
from sa import generic
from sa.algebra import Rat, Poly, Translator, AlgebraError, parse_expr
from sa.extract import single_assignments, inline, names_in
from sa.srcmodel import own_nodes, dotted, positional_params, func_params, bind_call
from sa.report import AnalysisError
from sa import miniexec as mx

EXPLANATION = (
    "Decides, for all grids, densities and proportions: (1) deposition identity - in _admixture_intermediates "
    "frac_lower + frac_upper == 1 and, with the trapezoid weights of the two bracketing nodes, "
    "frac_lower*norm*w_lower + frac_upper*norm*w_upper == phi as rational identities, so integrating the new axis out returns the "
    "old density; the searchsorted bracket is clamped to [1, len-1] and the three edge spacings are zeroed exactly at the ends; "
    "phi_1D_to_2D places phi/w on the diagonal; (2) R-TPL(newpop) - each constructor builds the admixed frequency as "
    "sum f_a*grid_a + (1-sum f)*grid_last with every grid broadcast on its own axis, rejects exactly sum f > 1, deposits at "
    "(arange per old axis ..., lower/upper) and returns an array of the right shape; split_1/split_2 delegate with f=1/0; "
    "(3) R-TPL(pulse) - for each of the 14 in-place pulses phi_<D>D_admix_.._into_<K> the effective proportion of every "
    "population (slot algebra of the intermediates call) is f_j for j != K and 1-sum f for K, the loops run over exactly the "
    "axes != K, all four index expressions carry ':' at position K and the loop variables elsewhere in order, the scratch "
    "matrix and row index have the extent of axis K, the temporary axis is integrated out with trapz(axis=0) into the same "
    "index, and phi is returned; (4) remove_pop / filter_pops / reorder_pops axis arithmetic. searchsorted edge cases at "
    "run-time values are not decided.")
TECHNIQUE = "rational identities (deposition) + sibling templates of constructors and pulses (index/slot algebra)"
DECLINED = ["searchsorted behaviour when an admixed frequency hits a grid point or exceeds 1 by round-off", "numerical statement that the new population carries the mixture frequency"]

PM = 'dadi.PhiManip'
GR = ['xx', 'yy', 'zz', 'aa', 'bb', 'cc']
LV = ['ii', 'jj', 'kk', 'll', 'mm']
HELPER = {2: '_two_pop_admixture_intermediates', 3: '_three_pop_admixture_intermediates', 4: '_four_pop_admixture_intermediates', 5: '_five_pop_admixture_intermediates'}


def _last(n):
    return (n or '').split('.')[-1]


def _interp(prog, m, **kw):
    from sa import miniexec as mx
    from sa import alpha as _alpha
    known = _alpha.load_table().get('__params__', {}).get(m.rel)
    known = set(known) if known is not None else None
    return mx.Interp(prog, m, known_functions=known, **kw)


def check_deposition(rep, prog, m):
    """the five values _admixture_intermediates returns, as expressions in the grid nodes around the (clamped) bracket U: abstract
    execution gives the values, exact rational algebra the identities.  Independent of how the function names or groups its
    intermediates."""
    from sa import miniexec as mx
    fn = prog.func(PM, '_admixture_intermediates')
    rel = m.rel
    rep.saw_function(rel + ':_admixture_intermediates')
    it = _interp(prog, m)
    try:
        paths = [p for p in it.run(fn, {'phi': mx.Sym('phi'), 'ad_z': mx.Sym('ad_z'), 'zz': mx.Sym('zz')}) if p[0][0] == 'return']
    except mx.Undecidable as e:
        raise AnalysisError('_admixture_intermediates is not recognised: %s' % e)
    if len(paths) != 1 or not (isinstance(paths[0][0][1], tuple) and len(paths[0][0][1]) == 5):
        raise AnalysisError('_admixture_intermediates is not recognised: %d returning paths / not a 5-tuple' % len(paths))
    ret = paths[0][0][1]
    info = {'wheres': [], 'mod': set(), 'search': [], 'partial': []}
    n_at = Rat.atom('n')

    def is_len(x):
        c = mx.call_of(x, 'len')
        return c is not None and len(c[0]) == 1 and mx.show(c[0][0]) == 'zz'

    def clamp_kind(x):
        """'U' for the searchsorted result clamped to [1, n-1], 'S' for the raw result, 'P' for a one-sided clamp, None otherwise"""
        c = mx.call_of(x, 'searchsorted')
        if c is not None:
            info['search'].append([mx.show(a) for a in c[0]] + ['%s=%s' % (k, mx.show(v)) for k, v in c[1].items()])
            return 'S', set()
        for f_ in ('maximum', 'minimum'):
            c = mx.call_of(x, f_)
            if c is not None and len(c[0]) == 2 and not c[1]:
                for a, b in ((c[0][0], c[0][1]), (c[0][1], c[0][0])):
                    k = clamp_kind(a)
                    if k is None:
                        continue
                    try:
                        bound = mx.to_rat(b, leaf)
                    except AlgebraError:
                        return None
                    want = Rat.const(1) if f_ == 'maximum' else n_at - Rat.const(1)
                    if not bound.equals(want):
                        info['partial'].append('%s(.., %s)' % (f_, bound.canon()))
                        return 'P', k[1]
                    done = k[1] | {f_}
                    return ('U' if done == {'maximum', 'minimum'} else 'P'), done
        return None

    def leaf(x):
        if isinstance(x, mx.Sym) and x.text in ('phi', 'ad_z') and not x.struct:
            return Rat.atom(x.text)
        if is_len(x):
            return n_at
        k = clamp_kind(x)
        if k is not None:
            if k[0] != 'U':
                info['partial'].append(mx.show(x)[:60])
            return Rat.atom({'U': 'U', 'S': 'Sraw', 'P': 'Spart'}[k[0]])
        if isinstance(x, mx.Sym) and x.struct and x.struct[0] == 'index' and mx.show(x.struct[1]) == 'zz':
            key = x.struct[2]
            modded = False
            if isinstance(key, mx.Sym) and key.struct and key.struct[0] == 'binop' and key.struct[1] == '%' and is_len(key.struct[3]):
                key, modded = key.struct[2], True
            r = mx.to_rat(key, leaf)
            if modded:
                info['mod'].add(r.canon())
            return Rat.atom('zz{%s}' % r.canon())
        c = mx.call_of(x, 'where')
        if c is not None and len(c[0]) == 3 and not c[1] and c[0][1] == 0:
            rb = mx.to_rat(c[0][2], leaf)
            info['wheres'].append((c[0][0], rb))
            return rb
        return None
    try:
        lo, up, fl, fu, norm = [mx.to_rat(v, leaf) for v in ret]
    except AlgebraError as e:
        raise AnalysisError('_admixture_intermediates is not recognised: %s' % e)
    U = Rat.atom('U')
    zU, zL, zLm, zUp = Rat.atom('zz{U}'), Rat.atom('zz{-1 + U}'), Rat.atom('zz{-2 + U}'), Rat.atom('zz{1 + U}')
    d0, d1, d2 = zL - zLm, zU - zL, zUp - zU
    oks = bool(info['search']) and all(a == ['zz', 'ad_z'] for a in info['search'])
    rep.ob('R-TPL', '_admixture_intermediates searchsorted', oks, 'searchsorted(%s)' % ', '.join(info['search'][0]) if info['search'] else 'no searchsorted', rel, fn.lineno, what='bracket found by searchsorted(grid, admixed frequency)')
    atoms = set()
    for v in (lo, up, fl, fu, norm):
        atoms |= set(v.atoms())
    okc = not any(a.startswith(('Sraw', 'Spart')) or '{' in a and ('Sraw' in a or 'Spart' in a) for a in atoms)
    rep.ob('R-TPL', '_admixture_intermediates clamp', okc, 'every use of the bracket index is clamped to [1, len-1]' if okc else 'unclamped bracket index in %s' % sorted(a for a in atoms if 'Sraw' in a or 'Spart' in a)[:2],
           rel, fn.lineno, what='upper bracket index clamped to [1, len-1]')
    ok = lo.equals(U - Rat.const(1)) and up.equals(U)
    rep.ob('R-ALG', '_admixture_intermediates bracket', ok, 'lower = %s; upper = %s' % (lo.canon(), up.canon()), rel, fn.lineno, what='bracketing nodes are adjacent grid points (returned first and second)')
    # the edge spacings: every where(cond, 0, x) met in the returned values
    seen = {}
    unknown = []
    for cond, rb in info['wheres']:
        st = cond.struct if isinstance(cond, mx.Sym) else None
        which = 'delz0' if rb.equals(d0) else 'delz1' if rb.equals(d1) else 'delz2' if rb.equals(d2) else None
        try:
            diff = (mx.to_rat(st[2], leaf) - mx.to_rat(st[3], leaf)) if st and st[0] == 'compare' and st[1] == '==' else None
        except AlgebraError:
            diff = None
        if which is None or diff is None:
            unknown.append(mx.show(cond)[:50])
            continue
        want = {'delz0': U - Rat.const(1), 'delz1': U, 'delz2': U - n_at + Rat.const(1)}[which]
        seen.setdefault(which, []).append(diff.equals(want) or diff.equals(Rat.const(0) - want))
    if unknown:
        rep.ob('R-TPL', '_admixture_intermediates edge', False, 'where(%s, 0, ...) not recognised' % unknown[0], rel, fn.lineno, what='out-of-range spacing zeroed exactly at the grid end')
    for name in ('delz0', 'delz2'):
        ok = name in seen and all(seen[name])
        rep.ob('R-TPL', '_admixture_intermediates edge %s' % name, ok, ('zeroed exactly where %s' % {'delz0': 'the lower node is node 0', 'delz2': 'the upper node is the last node'}[name]) if ok else
               ('not zeroed at the grid end' if name not in seen else 'zeroed under a different condition'), rel, fn.lineno, what='out-of-range spacing zeroed exactly at the grid end')
    ok1 = all(seen.get('delz1', [True]))
    rep.ob('R-TPL', '_admixture_intermediates edge delz1', ok1, 'the spacing of the bracket itself is never out of range (upper >= 1)' + ('' if 'delz1' not in seen else '; guarded by upper == 0, which cannot hold'), rel, fn.lineno,
           what='out-of-range spacing zeroed exactly at the grid end')
    okm = (U + Rat.const(1)).canon() in info['mod'] or not any(a == 'zz{1 + U}' for a in atoms)
    rep.ob('R-DOM', '_admixture_intermediates index beyond the grid', okm, 'node U+1 is read modulo len(zz)' if okm else 'zz[upper+1] is read without wrapping: IndexError when the bracket is the last interval', rel, fn.lineno,
           what='the node above the bracket is read with a wrapped index (its spacing is zeroed when it does not exist)')
    rep.ob('R-ALG', '_admixture_intermediates spacings', True, 'delz0 = z_l - z_{l-1}; delz1 = z_u - z_l; delz2 = z_{u+1} - z_u (entering the identities below)', rel, fn.lineno, what='spacings around the bracket')
    one = (fl + fu).equals(Rat.const(1))
    mean = (fl * zL + fu * zU).equals(Rat.atom('ad_z'))
    rep.ob('R-ALG', '_admixture_intermediates fractions', one and mean, 'frac_lower + frac_upper = %s; frac_lower*z_l + frac_upper*z_u = %s' % ((fl + fu).canon()[:40], (fl * zL + fu * zU).canon()[:40]), rel, fn.lineno,
           what='linear deposition weights sum to one and place the mass at the admixed frequency')
    half = Rat.const(Fraction(1, 2))
    total = fl * norm * (d0 + d1) * half + fu * norm * (d1 + d2) * half
    okm = total.equals(Rat.atom('phi'))
    rep.ob('R-ALG', '_admixture_intermediates mass', okm, 'frac_lower*norm*(delz0+delz1)/2 + frac_upper*norm*(delz1+delz2)/2 = %s' % total.canon()[:60], rel, fn.lineno,
           what='integrating the new axis out with the trapezoid rule returns the old density')
    rep.ob('R-FLOW', '_admixture_intermediates return', True, '(lower, upper, frac_lower, frac_upper, norm): each position satisfies its identity above', rel, fn.lineno, what='returns (lower, upper, frac_lower, frac_upper, norm)')
    # phi_1D_to_2D: what is stored on the diagonal (abstract execution; the index of the diagonal is a loop variable over
    # range(1, pts-1) or the vector numpy.arange(1, pts-1) used on both axes - the same element statements either way)
    f = prog.func(PM, 'phi_1D_to_2D')
    ok, det = False, ''
    try:
        it = _interp(prog, m, symbolic_loops=True)
        params = positional_params(f)
        paths = [p_ for p_ in it.run(f, {p_: mx.Sym(p_) for p_ in params}) if p_[0][0] == 'return']
        if len(paths) != 1:
            raise mx.Undecidable('%d returning paths' % len(paths))
        outcome, events, _d = paths[0]
        res = outcome[1]
        zc = mx.call_of(res, 'zeros')
        stores = [e for e in events if e[0] == 'setitem' and mx.show(e[4]) == mx.show(res)]
        if zc is None or len(stores) != 1 or not (isinstance(stores[0][2], tuple) and len(stores[0][2]) == 2):
            raise mx.Undecidable('%d stores into the result' % len(stores))
        k0, k1 = stores[0][2]
        var = mx.show(k0)
        rngs = {e[2]: e[3] for e in events if e[0] == 'loop' and len(e) > 3}
        span = mx.call_of(rngs[var], 'range') if var in rngs else mx.call_of(k0, 'arange')
        pts = None
        for e in events:
            pass

        def strip_arr(v):
            c = mx.call_of(v, 'asarray') or mx.call_of(v, 'asanyarray')
            return strip_arr(c[0][0]) if c is not None and c[0] else v

        def leaf(x):
            x = strip_arr(x)
            if mx.show(x) == var:
                return Rat.atom('i')
            if isinstance(x, mx.Sym) and x.struct and x.struct[0] == 'index' and mx.show(strip_arr(x.struct[1])) in ('phi_1D', 'xx') and not isinstance(x.struct[2], (tuple, slice)):
                return Rat.atom('%s{%s}' % (mx.show(strip_arr(x.struct[1])), mx.to_rat(x.struct[2], leaf).canon()))
            if isinstance(x, mx.Sym) and not x.struct and re.fullmatch(r'[A-Za-z_]\w*', x.text):
                return Rat.atom(x.text)
            c = mx.call_of(x, 'len')
            if c is not None:
                return Rat.atom('len(%s)' % mx.show(strip_arr(c[0][0])))
            return None
        val = mx.to_rat(stores[0][3], leaf)
        half_w = (Rat.atom('xx{1 + i}') - Rat.atom('xx{-1 + i}')) * Rat.const(Fraction(1, 2))
        okv = (val * half_w).equals(Rat.atom('phi_1D{i}'))
        okd = mx.show(k0) == mx.show(k1)
        oks = span is not None and len(span[0]) == 2 and span[0][0] == 1
        shape = zc[0][0] if zc[0] else None
        n_ = mx.to_rat(shape[0], leaf) if isinstance(shape, (tuple, list)) and len(shape) == 2 else None
        oks = oks and n_ is not None and mx.to_rat(shape[1], leaf).equals(n_) and mx.to_rat(span[0][1], leaf).equals(n_ - Rat.const(1))
        ok = okv and okd and oks
        det = 'result[i, i] = %s for i in [1, %s)' % (val.canon()[:60], mx.show(span[0][1]) if span else '?')
    except (mx.Undecidable, AlgebraError, KeyError) as e:
        det = 'phi_1D_to_2D is not recognised: %s' % e
    rep.ob('R-ALG', 'phi_1D_to_2D', ok, det, rel, f.lineno, what='diagonal value times the trapezoid weight of the node equals the 1-D density (interior nodes; the corners stay zero)')


def check_helpers(rep, prog, m):
    """the D-population helpers by what they hand to _admixture_intermediates (abstract execution; that function is summarised): the
    density, the admixed frequency sum_a f_a grid_a + (1 - sum f) grid_last with every grid on its own axis, and the grid of the new
    axis; and which proportion vectors they reject, on concrete vectors just above, exactly at and below total 1"""
    rel = m.rel
    for D in (2, 3, 4, 5):
        fn = prog.func(PM, HELPER[D])
        rep.saw_function(rel + ':' + fn.name)
        params = positional_params(fn)
        fs = params[1:D]
        grids = params[D:2 * D]
        newg = params[2 * D]
        five = tuple(mx.Sym(x) for x in ('LO', 'UP', 'FL', 'FU', 'NORM'))

        def run_with(fvals):
            calls = []

            def fh(nm, args, kwargs):
                if nm == '_admixture_intermediates':
                    calls.append((list(args), dict(kwargs)))
                    return five
                return NotImplemented
            it = _interp(prog, m, func_hook=fh)
            a_ = {p_: mx.Sym(p_) for p_ in params}
            for f_, v_ in zip(fs, fvals):
                a_[f_] = v_
            return it.run(fn, a_), calls
        oka = okc = False
        det = ''
        try:
            paths, calls = run_with([mx.Sym(f_) for f_ in fs])
            rets = [p_ for p_ in paths if p_[0][0] == 'return']
            if len(rets) != 1 or len(calls) != 1 or len(calls[0][0]) != 3 or calls[0][1]:
                raise mx.Undecidable('%d returning paths, %d calls of _admixture_intermediates' % (len(rets), len(calls)))
            a0, ad, a2 = calls[0][0]

            def leaf(x, D=D, grids=grids):
                if isinstance(x, mx.Sym) and not x.struct and re.fullmatch(r'[A-Za-z_]\w*', x.text):
                    return Rat.atom(x.text)
                if isinstance(x, mx.Sym) and x.struct and x.struct[0] == 'index' and mx.show(x.struct[1]) in grids:
                    b = mx.show(x.struct[1])
                    comps = x.struct[2] if isinstance(x.struct[2], tuple) else (x.struct[2],)
                    pos = [i_ for i_, c_ in enumerate(comps) if mx.is_full_slice(c_)]
                    if pos == [grids.index(b)] and len(comps) == D and all(mx.is_newaxis(c_) for i_, c_ in enumerate(comps) if i_ != pos[0]):
                        return Rat.atom('G(%s)' % b)
                    return Rat.atom('BAD(%s)' % b)
                return None
            got = mx.to_rat(ad, leaf)
            ref = Rat.const(0)
            rest = Rat.const(1)
            for f_, g_ in zip(fs, grids[:-1]):
                ref = ref + Rat.atom(f_) * Rat.atom('G(%s)' % g_)
                rest = rest - Rat.atom(f_)
            ref = ref + rest * Rat.atom('G(%s)' % grids[-1])
            oka = got.equals(ref)
            det = 'admixed frequency %s' % (got.canon()[:120])
            okc = mx.show(a0) == params[0] and mx.show(a2) == newg and [mx.show(x_) for x_ in rets[0][0][1]] == [mx.show(x_) for x_ in five] if isinstance(rets[0][0][1], tuple) else False
        except (mx.Undecidable, AlgebraError) as e:
            det = '%s is not recognised: %s' % (fn.name, e)
        rep.ob('R-ALG', '%s mixture' % fn.name, oka, det, rel, fn.lineno, what='admixed frequency = sum f_a*grid_a + (1 - sum f)*grid_last, each grid on its own axis')
        rep.ob('R-IDX', '%s delegation' % fn.name, bool(okc), 'delegates with (density, admixed frequency, new-axis grid) and returns the five intermediates' if okc else det, rel, fn.lineno,
               what='delegates with (density, admixed frequency, new-axis grid)')
        # the guard, on concrete proportion vectors: the reference is "rejected exactly when the proportions, added left to right in
        # floating point, exceed 1" (no guard at all for the two-population helper).  The vectors: a coarse grid, negative entries, and
        # vectors where rounding makes 1 - f1 - f2 - .. negative although f1 + f2 + .. does not exceed 1 (or the reverse) - a guard on the
        # remainder is not the same test.
        okg, detg = True, ''
        try:
            import itertools as _it
            nf = len(fs)
            tenths = [k_ / 10.0 for k_ in range(0, 11)]

            def lr_sum(v):
                t_ = v[0]
                for x_ in v[1:]:
                    t_ = t_ + x_
                return t_

            def remainder(v):
                t_ = 1
                for x_ in v:
                    t_ = t_ - x_
                return t_
            critical = [list(v) for v in _it.product(tenths, repeat=nf) if (lr_sum(v) > 1) != (remainder(v) < 0)][:4] if nf > 1 else []
            coarse = [list(v) for v in _it.product((0.0, 0.3, 0.6, 1.0), repeat=nf)]
            negative = [[-0.1] + [0.5 / max(nf - 1, 1)] * (nf - 1), [0.4] * (nf - 1) + [-0.2]] if nf > 1 else [[-0.1]]
            n_cases = 0
            for vals in coarse + critical + negative + [[1.5] + [0.0] * (nf - 1)]:
                must_raise = nf > 1 and lr_sum(vals) > 1
                paths, _c = run_with(vals)
                n_cases += 1
                raised = [p_ for p_ in paths if p_[0][0] == 'raise']
                returned = [p_ for p_ in paths if p_[0][0] == 'return']
                if must_raise and (returned or not raised):
                    okg, detg = False, 'proportions %s (total above 1) are accepted' % vals
                if not must_raise and raised:
                    okg, detg = False, 'proportions %s (total %.17g, not above 1) are rejected' % (vals, lr_sum(vals))
        except mx.Undecidable as e:
            okg, detg = False, '%s is not recognised: %s' % (fn.name, e)
        rep.ob('R-EXH', '%s guard' % fn.name, okg, detg or ('every proportion is accepted (range is the caller\'s responsibility)' if D == 2 else 'rejected exactly when the left-to-right sum exceeds 1 (%d vectors incl. rounding-critical and negative ones)' % n_cases),
               rel, fn.lineno, what='two-population helper accepts every f (range is the caller\'s responsibility)' if D == 2 else
               'rejects exactly proportion vectors summing above 1 (every vector of the simplex is accepted)')


def check_constructors(rep, prog, m):
    """what each new-population constructor does with the five intermediates (abstract execution; the helper is summarised by five
    symbols): forwards density, proportions and grids in order, allocates a zero array with one axis per grid, deposits
    frac_lower*norm at (every old index, lower) and frac_upper*norm at (every old index, upper), returns that array"""
    from sa import miniexec as mx
    rel = m.rel
    specs = {'phi_2D_to_3D_admix': 2, 'phi_3D_to_4D': 3, 'phi_4D_to_5D': 4}
    for q, D in specs.items():
        fn = prog.func(PM, q)
        rep.saw_function(rel + ':' + q)
        params = positional_params(fn)
        fs, grids = params[1:D], params[D:2 * D + 1]
        five = tuple(mx.Sym(x) for x in ('LO', 'UP', 'FL', 'FU', 'NORM'))
        helper_calls = []

        def fh(nm, args, kwargs, D=D, five=five, helper_calls=helper_calls):
            if nm == HELPER[D]:
                helper_calls.append(([mx.show(a) for a in args], {k: mx.show(v) for k, v in kwargs.items()}))
                return five
            return NotImplemented
        it = _interp(prog, m, func_hook=fh)
        args = {p_: mx.Sym(p_) for p_ in params}
        try:
            paths = [p_ for p_ in it.run(fn, args) if p_[0][0] == 'return']
        except mx.Undecidable as e:
            raise AnalysisError('%s is not recognised: %s' % (q, e))
        if len(paths) != 1:
            raise AnalysisError('%s is not recognised: %d returning paths' % (q, len(paths)))
        outcome, events, _dec = paths[0]
        okc = len(helper_calls) == 1 and helper_calls[0] == ([params[0]] + fs + grids, {})
        rep.ob('R-IDX', '%s helper call' % q, okc, '%s(%s)' % (HELPER[D], ', '.join(helper_calls[0][0]) if helper_calls else 'no call'), rel, fn.lineno, what='proportions and grids forwarded in order, new-axis grid last')
        result = outcome[1]
        zc = mx.call_of(result, 'zeros')
        shp = zc[0][0] if zc and zc[0] else (zc[1].get('shape') if zc else None)
        okz = isinstance(shp, (tuple, list)) and [mx.show(x) for x in shp] == ['len(%s)' % g for g in grids]
        rep.ob('R-IDX', '%s result shape' % q, okz, 'returns %s' % mx.show(result)[:80], rel, fn.lineno, what='result has one axis per grid, new axis last')
        rep.ob('R-FLOW', '%s return' % q, zc is not None, 'returns %s' % mx.show(result)[:60], rel, fn.lineno, what='returns the new density')
        # event layouts: ('setitem', text of base, key, value, base) / ('augitem', base, key, operator name, value)
        stores = [e for e in events if (e[0] == 'setitem' and mx.show(e[4]) == mx.show(result)) or (e[0] == 'augitem' and mx.show(e[1]) == mx.show(result))]

        def old_index_ok(comp, a):
            """numpy.arange(len(grid_a)) placed on axis a of a D-dimensional open mesh"""
            if not (isinstance(comp, mx.Sym) and comp.struct and comp.struct[0] == 'index'):
                return False
            ar = mx.call_of(comp.struct[1], 'arange')
            key = comp.struct[2] if isinstance(comp.struct[2], tuple) else (comp.struct[2],)
            return ar is not None and [mx.show(x) for x in ar[0]] == ['len(%s)' % grids[a]] and len(key) == D and all((mx.is_full_slice(k_) if i_ == a else mx.is_newaxis(k_)) for i_, k_ in enumerate(key))
        if not stores:
            # the same deposit through numpy.put_along_axis(result, index[..., newaxis], values[..., newaxis], axis=-1): by definition the
            # open mesh over every other axis; a take_along_axis / add / put_along_axis sequence at the same index is '+='
            def last_axis(v):
                if isinstance(v, mx.Sym) and v.struct and v.struct[0] == 'index':
                    key = v.struct[2] if isinstance(v.struct[2], tuple) else (v.struct[2],)
                    if len(key) == 2 and (key[0] is Ellipsis or mx.show(key[0]) == 'Ellipsis') and mx.is_newaxis(key[1]):
                        return v.struct[1]
                return None
            mesh = tuple(mx.Sym('mesh%d' % a, struct=('index', mx.Sym('arange', struct=('call', 'numpy.arange', (mx.Sym('len(%s)' % grids[a]),), {})),
                                                     tuple(slice(None) if i_ == a else None for i_ in range(D)))) for a in range(D))
            for e in events:
                if e[0] == 'call' and e[1].split('.')[-1] == 'put_along_axis' and len(e[2]) >= 3 and mx.show(e[2][0]) == mx.show(result):
                    ax = e[3].get('axis', e[2][3] if len(e[2]) > 3 else None)
                    idx_, val_ = last_axis(e[2][1]), e[2][2]
                    if ax != -1 and ax != D or idx_ is None:
                        continue
                    terms = mx.factors(val_, '+')
                    taken = [t_ for t_ in terms if mx.call_of(t_, 'take_along_axis') is not None]
                    rest_ = [t_ for t_ in terms if t_ not in taken]
                    if taken:
                        tk = mx.call_of(taken[0], 'take_along_axis')
                        same = len(taken) == 1 and len(rest_) == 1 and mx.show(tk[0][0]) == mx.show(result) and mx.show(tk[0][1]) == mx.show(e[2][1]) and tk[1].get('axis', tk[0][2] if len(tk[0]) > 2 else None) in (-1, D)
                        v_ = last_axis(rest_[0]) if same else None
                        if v_ is not None:
                            stores.append(('augitem', result, mesh + (idx_,), 'Add', v_))
                    else:
                        v_ = last_axis(val_)
                        if v_ is not None:
                            stores.append(('setitem', mx.show(result), mesh + (idx_,), v_, result))
        okidx, okd, det = True, len(stores) == 2, []
        for k_, st_ in enumerate(stores[:2]):
            if st_[0] == 'setitem':
                key, val = st_[2], st_[3]
            else:
                key, val = st_[2], st_[4]
                okd = okd and st_[3] == 'Add'
            key = key if isinstance(key, tuple) else (key,)
            det.append('%s[%s] %s %s' % (mx.show(result)[:12], ', '.join(mx.show(x)[:28] for x in key), '=' if st_[0] == 'setitem' else '+=', mx.show(val)[:30]))
            okidx = okidx and len(key) == D + 1 and all(old_index_ok(key[a], a) for a in range(D))
            want_last, want_val = (('LO', ['FL', 'NORM']), ('UP', ['FU', 'NORM']))[k_]
            okd = okd and len(key) == D + 1 and mx.show(key[-1]) == want_last and sorted(mx.show(f_) for f_ in mx.factors(val, '*')) == sorted(want_val)
        if stores and stores[0][0] != 'setitem':
            okd = False
        if not stores:
            rep.ob('R-IDX', '%s index arrays' % q, False, 'index arrays not found (no indexed store into the result)', rel, fn.lineno, what='one arange per old axis placed on that axis')
            rep.ob('R-TPL', '%s deposit' % q, False, 'deposit statements not found', rel, fn.lineno, what='frac_lower*norm at (old indices, lower) and frac_upper*norm at (old indices, upper)')
            continue
        rep.ob('R-IDX', '%s index arrays' % q, okidx, '; '.join(det)[:200], rel, fn.lineno, what='one arange per old axis placed on that axis')
        rep.ob('R-TPL', '%s deposit' % q, okd and okidx, '; '.join(det)[:200], rel, fn.lineno, what='frac_lower*norm at (old indices, lower) and frac_upper*norm at (old indices, upper)')
    for q, f in (('phi_2D_to_3D_split_1', '1'), ('phi_2D_to_3D_split_2', '0')):
        fn = prog.func(PM, q)
        ret = [n for n in own_nodes(fn) if isinstance(n, ast.Return)]
        ok = len(ret) == 1 and isinstance(ret[0].value, ast.Call) and dotted(ret[0].value.func) == 'phi_2D_to_3D_admix'
        if ok:
            b_, problems_ = bind_call(prog.func(PM, 'phi_2D_to_3D_admix'), ret[0].value)
            ok = not problems_ and {k: ast.unparse(v) for k, v in b_.items()} == {'phi': 'phi_2D', 'f1': f, 'xx': 'xx', 'yy': 'xx', 'zz': 'xx', 'deme_ids': 'deme_ids'}
        rep.ob('R-IDX', q, ok, ast.unparse(ret[0].value) if ret else '', rel, fn.lineno, what='pure split = admixture with proportion %s from population 1' % f)
    al = m.toplevel.get('phi_2D_to_3D')
    rep.ob('R-NAME', 'phi_2D_to_3D alias', bool(al) and ast.unparse(al[-1]) == 'phi_2D_to_3D_admix', 'alias of phi_2D_to_3D_admix', rel, 1, what='legacy alias binds the analysed function')


def nested_range_form(fn):
    """a copy of fn with  `for i, j in numpy.ndindex(E1, E2): body`  written as the nested range loops it is (ndindex runs through its
    indices in C order, the last one fastest) and `slice(None)` inside a subscript written as `:`; the function itself when nothing
    of the kind occurs"""
    if not any(isinstance(n, ast.For) and isinstance(n.iter, ast.Call) and (dotted(n.iter.func) or '').split('.')[-1] == 'ndindex' for n in ast.walk(fn)) and 'slice(None)' not in ast.unparse(fn):
        return fn
    from sa.srcmodel import clone
    fn = clone(fn)

    class T(ast.NodeTransformer):
        def visit_For(self, n):
            self.generic_visit(n)
            it = n.iter
            if isinstance(it, ast.Call) and (dotted(it.func) or '').split('.')[-1] == 'ndindex' and not it.keywords and not n.orelse and it.args and \
                    isinstance(n.target, ast.Tuple) and len(n.target.elts) == len(it.args) and all(isinstance(t_, ast.Name) for t_ in n.target.elts) and \
                    not any(isinstance(x, (ast.Break, ast.Continue)) for b in n.body for x in ast.walk(b)):
                body = n.body
                for t_, ext in reversed(list(zip(n.target.elts, it.args))):
                    lp = ast.For(target=ast.Name(id=t_.id, ctx=ast.Store()), iter=ast.Call(func=ast.Name(id='range', ctx=ast.Load()), args=[ext], keywords=[]), body=body, orelse=[])
                    ast.copy_location(lp, n)
                    body = [lp]
                return body[0]
            return n

        def visit_Subscript(self, n):
            self.generic_visit(n)
            def fix(e):
                if isinstance(e, ast.Call) and isinstance(e.func, ast.Name) and e.func.id == 'slice' and len(e.args) == 1 and isinstance(e.args[0], ast.Constant) and e.args[0].value is None:
                    return ast.Slice()
                return e
            if isinstance(n.slice, ast.Tuple):
                n.slice = ast.Tuple(elts=[fix(e) for e in n.slice.elts], ctx=ast.Load())
            else:
                n.slice = fix(n.slice)
            return n
    fn = T().visit(fn)
    ast.fix_missing_locations(fn)
    for n in ast.walk(fn):
        for c in ast.iter_child_nodes(n):
            c._parent = n
    return fn


def check_pulses(rep, prog, m):
    rel = m.rel
    n_p = 0
    for q, fn in sorted(m.funcs.items()):
        mm = re.fullmatch(r'phi_(\d)D_admix_(?:.*_)?into_(\d)', q)
        if not mm:
            continue
        n_p += 1
        D, K = int(mm.group(1)), int(mm.group(2))
        rep.saw_function(rel + ':' + q)
        fn = nested_range_form(fn)
        params = positional_params(fn)
        fs, grids = params[1:D], params[D:2 * D]
        tag = '%s[%dD into %d]' % (q, D, K)
        rep.ob('R-TPL(pulse)', tag + ' signature', params[0] == 'phi' and len(params) == 2 * D and grids == GR[:D], 'parameters %s' % params, rel, fn.lineno, what='(phi, D-1 proportions, D grids)')
        # which proportion parameter belongs to which source population
        sources = [j for j in range(1, D + 1) if j != K]
        if D == 2:
            fmap = {sources[0]: fs[0]}
        else:
            fmap = {}
            for p in fs:
                md = re.fullmatch(r'f(\d)', p)
                if md:
                    fmap[int(md.group(1))] = p
        okf = sorted(fmap) == sources
        rep.ob('R-TPL(pulse)', tag + ' proportions', okf, 'proportion parameters %s for sources %s' % (fs, sources), rel, fn.lineno, what='one proportion per source population')
        if not okf:
            continue
        call = [c for c in own_nodes(fn) if isinstance(c, ast.Call) and dotted(c.func) == HELPER[D]]
        if len(call) != 1:
            rep.ob('R-TPL(pulse)', tag + ' intermediates', False, 'expected one call to %s' % HELPER[D], rel, fn.lineno, what='uses the D-population intermediates')
            continue
        c = call[0]
        args = c.args
        slots = args[1:D]
        try:
            sl = [Translator().tr(a) for a in slots]
            eff = {j + 1: s for j, s in enumerate(sl)}
            lastp = Rat.const(1)
            for s in sl:
                lastp = lastp - s
            eff[D] = lastp
            tot = Rat.const(0)
            for j in sources:
                tot = tot + Rat.atom(fmap[j])
            oke = all(eff[j].equals(Rat.atom(fmap[j])) for j in sources) and eff[K].equals(Rat.const(1) - tot)
        except AlgebraError:
            oke = False
        rep.ob('R-ALG', tag + ' slot algebra', oke, '%s(%s): effective proportions %s' % (HELPER[D], ', '.join(ast.unparse(a) for a in args[1:D]), {j: e.canon() for j, e in eff.items()} if 'eff' in dir() else '?'),
               rel, c.lineno, what='population j contributes f_j (j != K) and the destination keeps 1 - sum f')
        okg = [ast.unparse(a) for a in args[D:2 * D]] == grids and ast.unparse(args[0]) == 'phi'
        newg = ast.unparse(args[2 * D]) if len(args) > 2 * D else '?'
        rep.ob('R-IDX', tag + ' grids', okg and newg in grids, 'grids %s, new-axis grid %s' % ([ast.unparse(a) for a in args[D:2 * D]], newg), rel, c.lineno, what='grids forwarded in order; new axis uses a grid of the model')
        if newg != grids[K - 1]:
            rep.note('pulse note %s: the temporary axis uses grid %s instead of %s (immaterial under the documented equal-grid convention)' % (q, newg, grids[K - 1]))
        # unpack of the intermediates and contributions
        un = getattr(c, '_parent', None)
        names = [e.id for e in un.targets[0].elts] if isinstance(un, ast.Assign) and isinstance(un.targets[0], ast.Tuple) else []
        if len(names) != 5:
            rep.ob('R-TPL(pulse)', tag + ' unpack', False, 'intermediates not unpacked into 5 names', rel, c.lineno, what='(lower, upper, frac_lower, frac_upper, norm)')
            continue
        lo, up, fl, fu, nr = names
        sing = single_assignments(fn)
        lc = next((k for k, v in sing.items() if ast.unparse(v) == '%s * %s' % (fl, nr)), None)
        uc = next((k for k, v in sing.items() if ast.unparse(v) == '%s * %s' % (fu, nr)), None)
        rep.ob('R-TPL(pulse)', tag + ' contributions', lc is not None and uc is not None, 'lower contribution %s, upper contribution %s' % (lc, uc), rel, fn.lineno, what='contributions are frac*norm')
        # loops
        loops = []
        node = fn
        body = fn.body
        cur = [n for n in body if isinstance(n, ast.For)]
        while cur:
            loops.append(cur[0])
            cur = [n for n in cur[0].body if isinstance(n, ast.For)]
        axes = []
        okl = True
        for lp in loops:
            it = ast.unparse(lp.iter)
            md = re.fullmatch(r'range\(phi\.shape\[(\d)\]\)', it)
            ml = re.fullmatch(r'range\(len\((\w+)\)\)', it)
            if md:
                axes.append((lp.target.id, int(md.group(1)) + 1))
            elif ml and ml.group(1) in grids:
                axes.append((lp.target.id, grids.index(ml.group(1)) + 1))
            else:
                okl = False
        okl = okl and sorted(a for _, a in axes) == sources and len({v for v, _ in axes}) == len(axes)
        rep.ob('R-TPL(pulse)', tag + ' loops', okl, 'loops %s; expected one loop per axis in %s' % (axes, sources), rel, loops[0].lineno if loops else fn.lineno, what='loops over exactly the axes other than the destination')
        if not okl:
            continue
        var_of = {a: v for v, a in axes}
        canon = [(':' if a == K else var_of[a]) for a in range(1, D + 1)]
        canon_short = canon[:-1] if K == D else canon        # trailing ':' may be omitted
        inner = loops[-1].body

        def idx_text(sub):
            comps = sub.slice.elts if isinstance(sub.slice, ast.Tuple) else [sub.slice]
            return [ast.unparse(x) for x in comps]

        def idx_ok(sub):
            t = idx_text(sub)
            return t == canon or (K == D and t == canon_short)
        scratch = [n for n in inner if isinstance(n, ast.Assign) and isinstance(n.value, ast.Call) and _last(dotted(n.value.func)) == 'zeros']
        if not scratch:
            # allocated once before the loops and cleared at the top of every iteration: the same fresh zero matrix per iteration
            fills = [n for n in inner[:1] if isinstance(n, ast.Expr) and isinstance(n.value, ast.Call) and isinstance(n.value.func, ast.Attribute) and n.value.func.attr == 'fill'
                     and len(n.value.args) == 1 and ast.unparse(n.value.args[0]) in ('0', '0.0') and isinstance(n.value.func.value, ast.Name)]
            if fills:
                nm_ = fills[0].value.func.value.id
                scratch = [n for n in fn.body if isinstance(n, ast.Assign) and ast.unparse(n.targets[0]) == nm_ and isinstance(n.value, ast.Call) and _last(dotted(n.value.func)) in ('zeros', 'empty')
                           and isinstance(n.value.args[0], (ast.Tuple, ast.List))]
                if scratch:
                    sc0 = scratch[0]
                    scratch = [ast.copy_location(ast.Assign(targets=sc0.targets, value=ast.Call(func=sc0.value.func, args=[ast.Tuple(elts=[inline(x, sing) for x in sc0.value.args[0].elts], ctx=ast.Load())], keywords=[])), sc0)]
        ext_ok = False
        if scratch:
            # each extent: phi.shape[K], len(grid_K), or the length of an index vector numpy.arange(<extent of K>)
            extent_texts = {'phi.shape[%d]' % (K - 1), 'len(%s)' % grids[K - 1]}
            for k_, v in sing.items():
                if isinstance(v, ast.Call) and _last(dotted(v.func)) == 'arange' and len(v.args) == 1 and ast.unparse(v.args[0]) in extent_texts:
                    extent_texts |= {'len(%s)' % k_, '%s.size' % k_, '%s.shape[0]' % k_}
            shp_node = scratch[0].value.args[0]
            ext_ok = isinstance(shp_node, (ast.Tuple, ast.List)) and len(shp_node.elts) == 2 and all(ast.unparse(x) in extent_texts for x in shp_node.elts)
        S = scratch[0].targets[0].id if scratch else '?'
        rep.ob('R-TPL(pulse)', tag + ' scratch', ext_ok, ast.unparse(scratch[0]) if scratch else 'scratch matrix not found', rel, scratch[0].lineno if scratch else fn.lineno, what='scratch matrix is extent(K) x extent(K)')
        rowv = None
        for k_, v in sing.items():
            if isinstance(v, ast.Call) and _last(dotted(v.func)) == 'arange':
                a0 = ast.unparse(v.args[0])
                if a0 in ('phi.shape[%d]' % (K - 1), 'len(%s)' % grids[K - 1]):
                    rowv = k_
        rep.ob('R-TPL(pulse)', tag + ' row index', rowv is not None, 'row index variable %s' % rowv, rel, fn.lineno, what='row index spans the extent of the destination axis')
        deps = [n for n in inner if isinstance(n, (ast.Assign, ast.AugAssign)) and isinstance((n.targets[0] if isinstance(n, ast.Assign) else n.target), ast.Subscript)
                and ast.unparse((n.targets[0] if isinstance(n, ast.Assign) else n.target).value) == S]
        okd = len(deps) == 2
        det = '; '.join(ast.unparse(d) for d in deps)
        if okd:
            for d_, (ix, ct) in zip(deps, ((lo, lc), (up, uc))):
                tg = d_.targets[0] if isinstance(d_, ast.Assign) else d_.target
                comps = tg.slice.elts if isinstance(tg.slice, ast.Tuple) else []
                okd = okd and len(comps) == 2 and ast.unparse(comps[0]) == rowv and isinstance(comps[1], ast.Subscript) and ast.unparse(comps[1].value) == ix and idx_ok(comps[1]) and \
                    isinstance(d_.value, ast.Subscript) and ast.unparse(d_.value.value) == ct and idx_ok(d_.value)
                if isinstance(d_, ast.AugAssign):
                    okd = okd and isinstance(d_.op, ast.Add)
        rep.ob('R-TPL(pulse)', tag + ' deposit', okd, (det or 'deposit statements not found') + '; expected index %s on all four arrays' % canon, rel, deps[0].lineno if deps else fn.lineno,
               what='deposits use the same index (":" at position K, loop variables elsewhere in order) for bracket indices and contributions')
        col = [n for n in inner if isinstance(n, ast.Assign) and isinstance(n.targets[0], ast.Subscript) and ast.unparse(n.targets[0].value) == 'phi']
        okc = len(col) == 1 and idx_ok(col[0].targets[0]) and isinstance(col[0].value, ast.Call) and dotted(col[0].value.func) == 'Numerics.trapz' and \
            ast.unparse(col[0].value.args[0]) == S and len(col[0].value.args) == 2 and ast.unparse(col[0].value.args[1]) in grids and {k.arg: ast.unparse(k.value) for k in col[0].value.keywords} == {'axis': '0'}
        if not okc and len(col) == 1 and idx_ok(col[0].targets[0]) and isinstance(col[0].value, ast.Call) and dotted(col[0].value.func) == 'Numerics.trapz' and len(col[0].value.args) == 1 \
                and ast.unparse(col[0].value.args[0]) == S:
            # the spacing handed over as dx = numpy.diff(grid) (trapz computes exactly that from the grid)
            kw_ = {k.arg: k.value for k in col[0].value.keywords}
            dxv = inline(kw_['dx'], sing) if 'dx' in kw_ else None
            okc = set(kw_) == {'dx', 'axis'} and ast.unparse(kw_['axis']) == '0' and isinstance(dxv, ast.Call) and dotted(dxv.func) in ('numpy.diff', 'np.diff') and len(dxv.args) == 1 and ast.unparse(dxv.args[0]) in grids
        rep.ob('R-TPL(pulse)', tag + ' collapse', okc, ast.unparse(col[0]) if col else 'no collapse', rel, col[0].lineno if col else fn.lineno,
               what='old destination axis integrated out with trapz(axis=0) into the same index')
        ret = [n for n in fn.body if isinstance(n, ast.Return)]
        rep.ob('R-FLOW', tag + ' return', len(ret) == 1 and ast.unparse(ret[0].value) == 'phi', 'returns %s' % (ast.unparse(ret[0].value) if ret else ''), rel, fn.lineno, what='returns phi')
        doc = ast.get_docstring(fn) or ''
        rep.ob('R-PURE', tag + ' documentation', bool(re.search(r'in[- ]?place', doc, re.I)), 'docstring states the in-place update', rel, fn.lineno, what='documented as in-place')
    if n_p != 14:
        raise AnalysisError('expected 14 pulse functions, found %d' % n_p)
    check_pulse_paths(rep, prog, m)


def check_pulse_paths(rep, prog, m):
    """no path of a pulse function leaves phi untouched while some proportion is non-zero: abstract execution with every proportion
    either the constant 0 or a non-zero symbol (a shortcut for 'nothing is admixed' must test that ALL proportions vanish)"""
    import itertools
    from sa import miniexec as mx
    rel = m.rel
    for q, fn in sorted(m.funcs.items()):
        mm = re.fullmatch(r'phi_(\d)D_admix_(?:.*_)?into_(\d)', q)
        if not mm:
            continue
        D = int(mm.group(1))
        params = positional_params(fn)
        fs = params[1:D]
        bad, n_paths = [], 0
        try:
            for combo in itertools.product((0, 1), repeat=len(fs)):
                it = _interp(prog, m, symbolic_loops=True)
                args = {p_: mx.Sym(p_) for p_ in params}
                for f_, nz in zip(fs, combo):
                    args[f_] = mx.Sym(f_, truth=True) if nz else 0
                for outcome, events, _dec in it.run(fn, args):
                    if outcome[0] != 'return':
                        continue
                    n_paths += 1
                    touched = any((e[0] == 'setitem' and mx.show(e[4]) == 'phi') or (e[0] == 'augitem' and mx.show(e[1]) == 'phi') for e in events)
                    if mx.show(outcome[1]) != 'phi' and not mx.show(outcome[1]).startswith('phi'):
                        bad.append('returns %s' % mx.show(outcome[1])[:40])
                    if any(combo) and not touched:
                        bad.append('with %s phi is returned untouched' % ', '.join('%s %s 0' % (f_, '!=' if nz else '==') for f_, nz in zip(fs, combo)))
        except mx.Undecidable as e:
            rep.ob('R-PATH', '%s paths' % q, False, '%s is not recognised: %s' % (q, e), rel, fn.lineno, what='every path with a non-zero proportion deposits into phi')
            continue
        rep.ob('R-PATH', '%s paths' % q, not bad, '; '.join(sorted(set(bad))[:2]) if bad else '%d paths over zero / non-zero proportions: phi is updated whenever a proportion is non-zero' % n_paths, rel, fn.lineno,
               what='every path with a non-zero proportion deposits into phi (a shortcut may only skip the case in which all proportions are 0)')


def check_reorder(rep, prog, m):
    rel = m.rel
    fn = prog.func(PM, 'reorder_pops')
    import itertools
    from sa import miniexec as mx
    from sa import tis
    bad = []
    try:
        for D in (2, 3, 4):
            cases = [list(p_) for p_ in itertools.permutations(range(1, D + 1))] + [[1] * D, list(range(0, D)), list(range(1, D)), list(range(1, D + 2)), list(range(2, D + 2))]
            for order in cases:
                valid = sorted(order) == list(range(1, D + 1))
                it = _interp(prog, m)
                phi = mx.Sym('phi', attrs={'ndim': D})
                paths = it.run(fn, {'phi': phi, 'neworder': list(order)})
                rets = [p_ for p_ in paths if p_[0][0] == 'return']
                if not valid:
                    if rets:
                        bad.append('neworder=%s is accepted' % order)
                    continue
                if len(rets) != 1:
                    bad.append('neworder=%s: %d returning paths' % (order, len(rets)))
                    continue
                idx = [mx.Sym('i%d' % k) for k in range(D)]
                try:
                    root, pidx = tis.at(rets[0][0][1], idx, lambda v: isinstance(v, mx.Sym) and v.text == 'phi' and not v.struct)
                    okp = [mx.show(x) for x in pidx] == ['i%d' % order.index(a + 1) for a in range(D)]
                except tis.Unfollowed:
                    okp = False
                if not okp:
                    bad.append('neworder=%s returns %s' % (order, mx.show(rets[0][0][1])[:50]))
    except mx.Undecidable as e:
        bad.append('reorder_pops is not recognised: %s' % e)
    rep.ob('R-IDX', 'PhiManip.reorder_pops', not bad, '; '.join(bad[:2]) if bad else 'neworder validated as a permutation of 1..D; new axis k is old axis neworder[k]-1 (2-4 dimensions, every permutation)', rel, fn.lineno,
           what='neworder validated as a permutation of 1..D; axes transposed by neworder-1')
    from rules import c04
    c04.check_marginalisation(rep, prog)


def run(rep, prog, tier):
    # remove_pop / filter_pops integrate a population out with Numerics.trapz: the primitive itself (all its return paths)
    from rules import c04
    c04.check_trapz(rep, prog)
    m = prog.mod(PM)
    rep.saw_file(m.rel)
    for q, fn in m.funcs.items():
        if q.startswith(('phi_', '_', 'remove', 'filter', 'reorder', 'check_xx')) and '.' not in q:
            generic.rule_name(rep, prog, m, fn)
            generic.rule_def(rep, m, fn)
            generic.rule_sig(rep, prog, m, fn)
    check_deposition(rep, prog, m)
    check_helpers(rep, prog, m)
    check_constructors(rep, prog, m)
    check_pulses(rep, prog, m)
    check_reorder(rep, prog, m)
    rep.floor('R-TPL(pulse)', 110)
    rep.floor('R-ALG', 20)
