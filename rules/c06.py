"""C06 - Splits, admixture, pulses, removal and reordering conserve marginal densities (DESIGN.md C06)."""
import ast, re
from fractions import Fraction
from sa import generic
from sa.algebra import Rat, Poly, Translator, AlgebraError, parse_expr
from sa.extract import single_assignments, inline, names_in
from sa.srcmodel import own_nodes, dotted, positional_params, func_params, bind_call
from sa.report import AnalysisError

EXPLANATION = (
    "Decides, for all grids, densities and proportions: (1) deposition identity - in _admixture_intermediates "
    "frac_lower + frac_upper == 1 and, with the trapezoid weights of the two bracketing nodes, "
    "frac_lower*norm*w_lower + frac_upper*norm*w_upper == phi as rational identities, so integrating the new axis out returns the "
    "old density; the searchsorted bracket is clamped to [1, len-1] and the three edge spacings are zeroed exactly at the ends; "
    "phi_1D_to_2D places phi/w on the diagonal; (2) R-TPL(newpop) - each constructor builds the admixed frequency as "
    "sum f_a*grid_a + (1-sum f)*grid_last with every grid broadcast on its own axis, rejects exactly sum f > 1, deposits at "
    "(arange per old axis ..., lower/upper) and returns an array of the right shape; split_1/split_2 delegate with f=1/0; "
    "(3) R-TPL(pulse) - for each of the 14 in-place pulses phi_<D>D_admix_.._into_<K> the effective proportion of every "
    "population (slot algebra of the intermediates call) is f_j for j != K and 1-sum f for K, the loops run over exactly the "
    "axes != K, all four index expressions carry ':' at position K and the loop variables elsewhere in order, the scratch "
    "matrix and row index have the extent of axis K, the temporary axis is integrated out with trapz(axis=0) into the same "
    "index, and phi is returned; (4) remove_pop / filter_pops / reorder_pops axis arithmetic. searchsorted edge cases at "
    "run-time values are not decided.")
TECHNIQUE = "rational identities (deposition) + sibling templates of constructors and pulses (index/slot algebra)"
DECLINED = ["searchsorted behaviour when an admixed frequency hits a grid point or exceeds 1 by round-off", "numerical statement that the new population carries the mixture frequency"]

PM = 'dadi.PhiManip'
GR = ['xx', 'yy', 'zz', 'aa', 'bb', 'cc']
LV = ['ii', 'jj', 'kk', 'll', 'mm']
HELPER = {2: '_two_pop_admixture_intermediates', 3: '_three_pop_admixture_intermediates', 4: '_four_pop_admixture_intermediates', 5: '_five_pop_admixture_intermediates'}


def _last(n):
    return (n or '').split('.')[-1]


def check_deposition(rep, prog, m):
    fn = prog.func(PM, '_admixture_intermediates')
    rel = m.rel
    rep.saw_function(rel + ':_admixture_intermediates')
    env = {}
    wheres = {}
    clamps = []

    def index_hook(tr, e):
        base = ast.unparse(e.value)
        idx = e.slice
        try:
            r = tr.tr(idx)
        except AlgebraError:
            return None
        # zz[upper] etc: express indices relative to the symbolic node `U` (upper) : lower = U - 1
        return Rat.atom('%s{%s}' % (base, r.canon()))
    T = Translator(env, index_hook=index_hook)
    env = T.env
    for st in fn.body:
        if isinstance(st, ast.Assign) and isinstance(st.targets[0], ast.Name):
            name = st.targets[0].id
            v = st.value
            if isinstance(v, ast.Call) and _last(dotted(v.func)) == 'searchsorted':
                ok = [ast.unparse(a) for a in v.args] == ['zz', 'ad_z']
                rep.ob('R-TPL', '_admixture_intermediates searchsorted', ok, ast.unparse(st), rel, st.lineno, what='bracket found by searchsorted(grid, admixed frequency)')
                env[name] = Rat.atom('U')
                continue
            if isinstance(v, ast.Call) and _last(dotted(v.func)) in ('minimum', 'maximum'):
                clamps.append((name, _last(dotted(v.func)), [ast.unparse(a) for a in v.args], st.lineno))
                continue
            if isinstance(v, ast.Call) and _last(dotted(v.func)) == 'where':
                wheres[name] = (v, st.lineno)
                continue     # general position: keep the previous value
            try:
                env[name] = T.tr(v)
            except AlgebraError as e:
                raise AnalysisError('_admixture_intermediates: cannot normalise %s: %s' % (ast.unparse(st)[:60], e))
    okc = [(n, f, a) for n, f, a, _ in clamps] == [('upper_z_index', 'minimum', ['upper_z_index', 'len(zz) - 1']), ('upper_z_index', 'maximum', ['upper_z_index', '1'])]
    rep.ob('R-TPL', '_admixture_intermediates clamp', okc, '; '.join('%s=%s(%s)' % (n, f, ', '.join(a)) for n, f, a, _ in clamps), rel, clamps[0][3] if clamps else fn.lineno,
           what='upper bracket index clamped to [1, len-1]')
    exp_where = {'delz0': 'lower_z_index == 0', 'delz1': 'upper_z_index == 0', 'delz2': 'upper_z_index == len(zz) - 1'}
    for name, cond in exp_where.items():
        w = wheres.get(name)
        ok = w is not None and [ast.unparse(a) for a in w[0].args] == [cond, '0', name]
        rep.ob('R-TPL', '_admixture_intermediates edge %s' % name, ok, ast.unparse(w[0]) if w else 'missing', rel, w[1] if w else fn.lineno, what='out-of-range spacing zeroed exactly at the grid end')
    need = ['lower_z_index', 'upper_z', 'lower_z', 'delz0', 'delz1', 'delz2', 'frac_lower', 'frac_upper', 'norm']
    if any(n not in env for n in need):
        raise AnalysisError('_admixture_intermediates: missing intermediate among %s' % need)
    zU, zL, zLm, zUp = Rat.atom('zz{U}'), Rat.atom('zz{-1 + U}'), Rat.atom('zz{-2 + U}'), None
    ok = env['lower_z_index'].equals(parse_expr('U - 1')) and env['upper_z'].equals(zU) and env['lower_z'].equals(zL)
    rep.ob('R-ALG', '_admixture_intermediates bracket', ok, 'lower = upper - 1; upper_z = zz[upper]; lower_z = zz[lower]', rel, fn.lineno, what='bracketing nodes are adjacent grid points')
    d0, d1, d2 = env['delz0'], env['delz1'], env['delz2']
    okd = d0.equals(zL - zLm) and d1.equals(zU - zL)
    # delz2 uses (upper+1) % len(zz): opaque -> compare its printed form
    d2src = [st for st in fn.body if isinstance(st, ast.Assign) and ast.unparse(st.targets[0]) == 'delz2'][0]
    okd2 = ast.unparse(d2src.value) == 'zz[(upper_z_index + 1) % len(zz)] - zz[upper_z_index]'
    rep.ob('R-ALG', '_admixture_intermediates spacings', okd and okd2, 'delz0 = z_l - z_{l-1}; delz1 = z_u - z_l; delz2 = z_{u+1} - z_u', rel, fn.lineno, what='spacings around the bracket')
    fl, fu, norm = env['frac_lower'], env['frac_upper'], env['norm']
    one = (fl + fu).equals(Rat.const(1))
    rep.ob('R-ALG', '_admixture_intermediates fractions', one, 'frac_lower + frac_upper = %s' % (fl + fu).canon()[:60], rel, fn.lineno, what='linear deposition weights sum to one')
    D0, D1, D2 = Rat.atom('D0'), Rat.atom('D1'), Rat.atom('D2')
    sub = {}
    # express the identity in terms of abstract spacings: replace the spacing expressions by atoms
    fl_s, fu_s = fl, fu
    normexp = [st for st in fn.body if isinstance(st, ast.Assign) and ast.unparse(st.targets[0]) == 'norm'][0].value
    Tn = Translator({'frac_lower': Rat.atom('FL'), 'frac_upper': Rat.atom('FU'), 'delz0': D0, 'delz1': D1, 'delz2': D2})
    nrm = Tn.tr(normexp)
    FL, FU = Rat.atom('FL'), Rat.atom('FU')
    total = FL * nrm * (D0 + D1) * Rat.const(Fraction(1, 2)) + FU * nrm * (D1 + D2) * Rat.const(Fraction(1, 2))
    total = total.subs({'FU': Rat.const(1) - FL})
    okm = total.equals(Rat.atom('phi'))
    rep.ob('R-ALG', '_admixture_intermediates mass', okm, 'frac_lower*norm*(delz0+delz1)/2 + frac_upper*norm*(delz1+delz2)/2 = %s' % total.canon()[:60], rel, fn.lineno,
           what='integrating the new axis out with the trapezoid rule returns the old density')
    ret = [n for n in own_nodes(fn) if isinstance(n, ast.Return)]
    okr = len(ret) == 1 and ast.unparse(ret[0].value).replace('(', '').replace(')', '') == 'lower_z_index, upper_z_index, frac_lower, frac_upper, norm'
    rep.ob('R-FLOW', '_admixture_intermediates return', okr, ast.unparse(ret[0].value) if ret else '', rel, fn.lineno, what='returns (lower, upper, frac_lower, frac_upper, norm)')
    # phi_1D_to_2D
    f = prog.func(PM, 'phi_1D_to_2D')
    lp = [n for n in own_nodes(f) if isinstance(n, ast.For)]
    ok = False
    if lp:
        b = lp[0].body[0]
        try:
            v = Translator().tr(b.value)
            ok = ast.unparse(b.targets[0]) == 'phi_2D[ii, ii]' and (v * parse_expr('(xx[ii + 1] - xx[ii - 1])/2')).equals(Translator().tr(ast.parse('phi_1D[ii]', mode='eval').body)) and \
                ast.unparse(lp[0].iter) == 'range(1, pts - 1)'
        except AlgebraError:
            ok = False
    rep.ob('R-ALG', 'phi_1D_to_2D', ok, ast.unparse(lp[0].body[0]) if lp else '', rel, f.lineno, what='diagonal value times the trapezoid weight of the node equals the 1-D density')


def check_helpers(rep, prog, m):
    rel = m.rel
    for D in (2, 3, 4, 5):
        fn = prog.func(PM, HELPER[D])
        rep.saw_function(rel + ':' + fn.name)
        params = positional_params(fn)
        fs = params[1:D]
        grids = params[D:2 * D]
        newg = params[2 * D]
        ad = [n for n in own_nodes(fn) if isinstance(n, ast.Assign) and ast.unparse(n.targets[0]).startswith('ad_')]
        if len(ad) != 1:
            raise AnalysisError('%s: admixed-frequency assignment not found' % fn.name)
        # broadcasting: grid a must carry ':' at array axis a-1
        okb = True
        terms = {}

        def index_hook(tr, e):
            return Rat.atom('G(%s)' % ast.unparse(e.value))
        for sub in ast.walk(ad[0].value):
            if isinstance(sub, ast.Subscript) and isinstance(sub.slice, ast.Tuple):
                g = ast.unparse(sub.value)
                pos = [i for i, c in enumerate(sub.slice.elts) if isinstance(c, ast.Slice)]
                if g not in grids or pos != [grids.index(g)] or len(sub.slice.elts) != D:
                    okb = False
        try:
            got = Translator({}, index_hook=index_hook).tr(ad[0].value)
            ref = Rat.const(0)
            rest = Rat.const(1)
            for f_, g in zip(fs, grids[:-1]):
                ref = ref + Rat.atom(f_) * Rat.atom('G(%s)' % g)
                rest = rest - Rat.atom(f_)
            ref = ref + rest * Rat.atom('G(%s)' % grids[-1])
            oka = got.equals(ref)
        except AlgebraError:
            oka = False
        rep.ob('R-ALG', '%s mixture' % fn.name, oka and okb, ast.unparse(ad[0])[:140], rel, ad[0].lineno, what='admixed frequency = sum f_a*grid_a + (1 - sum f)*grid_last, each grid on its own axis')
        call = [c for c in own_nodes(fn) if isinstance(c, ast.Call) and dotted(c.func) == '_admixture_intermediates']
        okc = len(call) == 1 and [ast.unparse(a) for a in call[0].args] == [params[0], ast.unparse(ad[0].targets[0]), newg]
        rep.ob('R-IDX', '%s delegation' % fn.name, okc, ast.unparse(call[0]) if call else '', rel, call[0].lineno if call else fn.lineno, what='delegates with (density, admixed frequency, new-axis grid)')
        guards = [n for n in fn.body if isinstance(n, ast.If)]
        if D == 2:
            rep.ob('R-EXH', '%s guard' % fn.name, not guards, '%d guards' % len(guards), rel, fn.lineno, what='two-population helper accepts every f (range is the caller\'s responsibility)')
        else:
            okg = len(guards) == 1 and any(isinstance(x, ast.Raise) for x in guards[0].body)
            if okg:
                t = guards[0].test
                try:
                    okg = isinstance(t, ast.Compare) and isinstance(t.ops[0], ast.Gt) and ast.unparse(t.comparators[0]) == '1' and \
                        Translator().tr(t.left).equals(parse_expr(' + '.join(fs)))
                except AlgebraError:
                    okg = False
            rep.ob('R-EXH', '%s guard' % fn.name, okg, 'raises iff %s' % (ast.unparse(guards[0].test) if guards else '(no guard)'), rel, guards[0].lineno if guards else fn.lineno,
                   what='rejects exactly proportion vectors summing above 1 (every vector of the simplex is accepted)')


def check_constructors(rep, prog, m):
    rel = m.rel
    specs = {'phi_2D_to_3D_admix': 2, 'phi_3D_to_4D': 3, 'phi_4D_to_5D': 4}
    for q, D in specs.items():
        fn = prog.func(PM, q)
        rep.saw_function(rel + ':' + q)
        params = positional_params(fn)
        fs, grids = params[1:D], params[D:2 * D + 1]
        call = [c for c in own_nodes(fn) if isinstance(c, ast.Call) and dotted(c.func) == HELPER[D]]
        okc = len(call) == 1 and [ast.unparse(a) for a in call[0].args] == [params[0]] + fs + grids
        rep.ob('R-IDX', '%s helper call' % q, okc, ast.unparse(call[0]) if call else 'no call', rel, call[0].lineno if call else fn.lineno, what='proportions and grids forwarded in order, new-axis grid last')
        idx = {}
        for n in own_nodes(fn):
            if isinstance(n, ast.Assign) and isinstance(n.targets[0], ast.Name) and n.targets[0].id.startswith('idx_'):
                v = n.value
                ok = isinstance(v, ast.Subscript) and isinstance(v.value, ast.Call) and _last(dotted(v.value.func)) == 'arange'
                if ok:
                    g = ast.unparse(v.value.args[0]).replace('len(', '').replace(')', '')
                    comps = v.slice.elts if isinstance(v.slice, ast.Tuple) else [v.slice]
                    pos = [i for i, c in enumerate(comps) if isinstance(c, ast.Slice)]
                    idx[n.targets[0].id] = (g, pos, len(comps))
        okidx = len(idx) == D and all(g in grids and pos == [grids.index(g)] and ln == D for g, pos, ln in idx.values())
        rep.ob('R-IDX', '%s index arrays' % q, okidx, str(idx) if idx else 'index arrays idx_* not found', rel, fn.lineno, what='one arange per old axis placed on that axis')
        order = [k for k, v in sorted(idx.items(), key=lambda kv: kv[1][1])]
        new = [n for n in own_nodes(fn) if isinstance(n, ast.Assign) and isinstance(n.value, ast.Call) and _last(dotted(n.value.func)) == 'zeros' and isinstance(n.targets[0], ast.Name)]
        okz = len(new) == 1 and ast.unparse(new[0].value.args[0]).replace('(', '').replace(')', '').replace('len', '').replace(' ', '') == ','.join(grids)
        out = new[0].targets[0].id if new else '?'
        rep.ob('R-IDX', '%s result shape' % q, okz, ast.unparse(new[0]) if new else '', rel, new[0].lineno if new else fn.lineno, what='result has one axis per grid, new axis last')
        dep = [n for n in own_nodes(fn) if isinstance(n, (ast.Assign, ast.AugAssign)) and isinstance(n.targets[0] if isinstance(n, ast.Assign) else n.target, ast.Subscript)
               and ast.unparse((n.targets[0] if isinstance(n, ast.Assign) else n.target).value) == out]
        okd = len(dep) == 2
        if okd:
            t0 = dep[0].targets[0] if isinstance(dep[0], ast.Assign) else dep[0].target
            t1 = dep[1].targets[0] if isinstance(dep[1], ast.Assign) else dep[1].target
            i0 = [ast.unparse(e) for e in t0.slice.elts]
            i1 = [ast.unparse(e) for e in t1.slice.elts]
            okd = i0 == order + ['lower_z_index'] and i1 == order + ['upper_z_index'] and ast.unparse(dep[0].value) == 'frac_lower * norm' and ast.unparse(dep[1].value) == 'frac_upper * norm' \
                and isinstance(dep[0], ast.Assign) and (isinstance(dep[1], ast.AugAssign) and isinstance(dep[1].op, ast.Add) or isinstance(dep[1], ast.Assign))
        rep.ob('R-TPL', '%s deposit' % q, okd, '; '.join(ast.unparse(d) for d in dep) or 'deposit statements not found', rel, dep[0].lineno if dep else fn.lineno, what='frac_lower*norm at (old indices, lower) and frac_upper*norm at (old indices, upper)')
        ret = [n for n in own_nodes(fn) if isinstance(n, ast.Return)]
        rep.ob('R-FLOW', '%s return' % q, len(ret) == 1 and ast.unparse(ret[0].value) == out, 'returns %s' % (ast.unparse(ret[0].value) if ret else ''), rel, fn.lineno, what='returns the new density')
    for q, f in (('phi_2D_to_3D_split_1', '1'), ('phi_2D_to_3D_split_2', '0')):
        fn = prog.func(PM, q)
        ret = [n for n in own_nodes(fn) if isinstance(n, ast.Return)]
        ok = len(ret) == 1 and isinstance(ret[0].value, ast.Call) and dotted(ret[0].value.func) == 'phi_2D_to_3D_admix' and [ast.unparse(a) for a in ret[0].value.args] == ['phi_2D', f, 'xx', 'xx', 'xx', 'deme_ids']
        rep.ob('R-IDX', q, ok, ast.unparse(ret[0].value) if ret else '', rel, fn.lineno, what='pure split = admixture with proportion %s from population 1' % f)
    al = m.toplevel.get('phi_2D_to_3D')
    rep.ob('R-NAME', 'phi_2D_to_3D alias', bool(al) and ast.unparse(al[-1]) == 'phi_2D_to_3D_admix', 'alias of phi_2D_to_3D_admix', rel, 1, what='legacy alias binds the analysed function')


def check_pulses(rep, prog, m):
    rel = m.rel
    n_p = 0
    for q, fn in sorted(m.funcs.items()):
        mm = re.fullmatch(r'phi_(\d)D_admix_(?:.*_)?into_(\d)', q)
        if not mm:
            continue
        n_p += 1
        D, K = int(mm.group(1)), int(mm.group(2))
        rep.saw_function(rel + ':' + q)
        params = positional_params(fn)
        fs, grids = params[1:D], params[D:2 * D]
        tag = '%s[%dD into %d]' % (q, D, K)
        rep.ob('R-TPL(pulse)', tag + ' signature', params[0] == 'phi' and len(params) == 2 * D and grids == GR[:D], 'parameters %s' % params, rel, fn.lineno, what='(phi, D-1 proportions, D grids)')
        # which proportion parameter belongs to which source population
        sources = [j for j in range(1, D + 1) if j != K]
        if D == 2:
            fmap = {sources[0]: fs[0]}
        else:
            fmap = {}
            for p in fs:
                md = re.fullmatch(r'f(\d)', p)
                if md:
                    fmap[int(md.group(1))] = p
        okf = sorted(fmap) == sources
        rep.ob('R-TPL(pulse)', tag + ' proportions', okf, 'proportion parameters %s for sources %s' % (fs, sources), rel, fn.lineno, what='one proportion per source population')
        if not okf:
            continue
        call = [c for c in own_nodes(fn) if isinstance(c, ast.Call) and dotted(c.func) == HELPER[D]]
        if len(call) != 1:
            rep.ob('R-TPL(pulse)', tag + ' intermediates', False, 'expected one call to %s' % HELPER[D], rel, fn.lineno, what='uses the D-population intermediates')
            continue
        c = call[0]
        args = c.args
        slots = args[1:D]
        try:
            sl = [Translator().tr(a) for a in slots]
            eff = {j + 1: s for j, s in enumerate(sl)}
            lastp = Rat.const(1)
            for s in sl:
                lastp = lastp - s
            eff[D] = lastp
            tot = Rat.const(0)
            for j in sources:
                tot = tot + Rat.atom(fmap[j])
            oke = all(eff[j].equals(Rat.atom(fmap[j])) for j in sources) and eff[K].equals(Rat.const(1) - tot)
        except AlgebraError:
            oke = False
        rep.ob('R-ALG', tag + ' slot algebra', oke, '%s(%s): effective proportions %s' % (HELPER[D], ', '.join(ast.unparse(a) for a in args[1:D]), {j: e.canon() for j, e in eff.items()} if 'eff' in dir() else '?'),
               rel, c.lineno, what='population j contributes f_j (j != K) and the destination keeps 1 - sum f')
        okg = [ast.unparse(a) for a in args[D:2 * D]] == grids and ast.unparse(args[0]) == 'phi'
        newg = ast.unparse(args[2 * D]) if len(args) > 2 * D else '?'
        rep.ob('R-IDX', tag + ' grids', okg and newg in grids, 'grids %s, new-axis grid %s' % ([ast.unparse(a) for a in args[D:2 * D]], newg), rel, c.lineno, what='grids forwarded in order; new axis uses a grid of the model')
        if newg != grids[K - 1]:
            rep.note('pulse note %s: the temporary axis uses grid %s instead of %s (immaterial under the documented equal-grid convention)' % (q, newg, grids[K - 1]))
        # unpack of the intermediates and contributions
        un = getattr(c, '_parent', None)
        names = [e.id for e in un.targets[0].elts] if isinstance(un, ast.Assign) and isinstance(un.targets[0], ast.Tuple) else []
        if len(names) != 5:
            rep.ob('R-TPL(pulse)', tag + ' unpack', False, 'intermediates not unpacked into 5 names', rel, c.lineno, what='(lower, upper, frac_lower, frac_upper, norm)')
            continue
        lo, up, fl, fu, nr = names
        sing = single_assignments(fn)
        lc = next((k for k, v in sing.items() if ast.unparse(v) == '%s * %s' % (fl, nr)), None)
        uc = next((k for k, v in sing.items() if ast.unparse(v) == '%s * %s' % (fu, nr)), None)
        rep.ob('R-TPL(pulse)', tag + ' contributions', lc is not None and uc is not None, 'lower contribution %s, upper contribution %s' % (lc, uc), rel, fn.lineno, what='contributions are frac*norm')
        # loops
        loops = []
        node = fn
        body = fn.body
        cur = [n for n in body if isinstance(n, ast.For)]
        while cur:
            loops.append(cur[0])
            cur = [n for n in cur[0].body if isinstance(n, ast.For)]
        axes = []
        okl = True
        for lp in loops:
            it = ast.unparse(lp.iter)
            md = re.fullmatch(r'range\(phi\.shape\[(\d)\]\)', it)
            ml = re.fullmatch(r'range\(len\((\w+)\)\)', it)
            if md:
                axes.append((lp.target.id, int(md.group(1)) + 1))
            elif ml and ml.group(1) in grids:
                axes.append((lp.target.id, grids.index(ml.group(1)) + 1))
            else:
                okl = False
        okl = okl and sorted(a for _, a in axes) == sources and len({v for v, _ in axes}) == len(axes)
        rep.ob('R-TPL(pulse)', tag + ' loops', okl, 'loops %s; expected one loop per axis in %s' % (axes, sources), rel, loops[0].lineno if loops else fn.lineno, what='loops over exactly the axes other than the destination')
        if not okl:
            continue
        var_of = {a: v for v, a in axes}
        canon = [(':' if a == K else var_of[a]) for a in range(1, D + 1)]
        canon_short = canon[:-1] if K == D else canon        # trailing ':' may be omitted
        inner = loops[-1].body

        def idx_text(sub):
            comps = sub.slice.elts if isinstance(sub.slice, ast.Tuple) else [sub.slice]
            return [ast.unparse(x) for x in comps]

        def idx_ok(sub):
            t = idx_text(sub)
            return t == canon or (K == D and t == canon_short)
        scratch = [n for n in inner if isinstance(n, ast.Assign) and isinstance(n.value, ast.Call) and _last(dotted(n.value.func)) == 'zeros']
        if not scratch:
            # allocated once before the loops and cleared at the top of every iteration: the same fresh zero matrix per iteration
            fills = [n for n in inner[:1] if isinstance(n, ast.Expr) and isinstance(n.value, ast.Call) and isinstance(n.value.func, ast.Attribute) and n.value.func.attr == 'fill'
                     and len(n.value.args) == 1 and ast.unparse(n.value.args[0]) in ('0', '0.0') and isinstance(n.value.func.value, ast.Name)]
            if fills:
                nm_ = fills[0].value.func.value.id
                scratch = [n for n in fn.body if isinstance(n, ast.Assign) and ast.unparse(n.targets[0]) == nm_ and isinstance(n.value, ast.Call) and _last(dotted(n.value.func)) in ('zeros', 'empty')
                           and isinstance(n.value.args[0], (ast.Tuple, ast.List))]
                if scratch:
                    sc0 = scratch[0]
                    scratch = [ast.copy_location(ast.Assign(targets=sc0.targets, value=ast.Call(func=sc0.value.func, args=[ast.Tuple(elts=[inline(x, sing) for x in sc0.value.args[0].elts], ctx=ast.Load())], keywords=[])), sc0)]
        ext_ok = False
        if scratch:
            # each extent: phi.shape[K], len(grid_K), or the length of an index vector numpy.arange(<extent of K>)
            extent_texts = {'phi.shape[%d]' % (K - 1), 'len(%s)' % grids[K - 1]}
            for k_, v in sing.items():
                if isinstance(v, ast.Call) and _last(dotted(v.func)) == 'arange' and len(v.args) == 1 and ast.unparse(v.args[0]) in extent_texts:
                    extent_texts |= {'len(%s)' % k_, '%s.size' % k_, '%s.shape[0]' % k_}
            shp_node = scratch[0].value.args[0]
            ext_ok = isinstance(shp_node, (ast.Tuple, ast.List)) and len(shp_node.elts) == 2 and all(ast.unparse(x) in extent_texts for x in shp_node.elts)
        S = scratch[0].targets[0].id if scratch else '?'
        rep.ob('R-TPL(pulse)', tag + ' scratch', ext_ok, ast.unparse(scratch[0]) if scratch else 'scratch matrix not found', rel, scratch[0].lineno if scratch else fn.lineno, what='scratch matrix is extent(K) x extent(K)')
        rowv = None
        for k_, v in sing.items():
            if isinstance(v, ast.Call) and _last(dotted(v.func)) == 'arange':
                a0 = ast.unparse(v.args[0])
                if a0 in ('phi.shape[%d]' % (K - 1), 'len(%s)' % grids[K - 1]):
                    rowv = k_
        rep.ob('R-TPL(pulse)', tag + ' row index', rowv is not None, 'row index variable %s' % rowv, rel, fn.lineno, what='row index spans the extent of the destination axis')
        deps = [n for n in inner if isinstance(n, (ast.Assign, ast.AugAssign)) and isinstance((n.targets[0] if isinstance(n, ast.Assign) else n.target), ast.Subscript)
                and ast.unparse((n.targets[0] if isinstance(n, ast.Assign) else n.target).value) == S]
        okd = len(deps) == 2
        det = '; '.join(ast.unparse(d) for d in deps)
        if okd:
            for d_, (ix, ct) in zip(deps, ((lo, lc), (up, uc))):
                tg = d_.targets[0] if isinstance(d_, ast.Assign) else d_.target
                comps = tg.slice.elts if isinstance(tg.slice, ast.Tuple) else []
                okd = okd and len(comps) == 2 and ast.unparse(comps[0]) == rowv and isinstance(comps[1], ast.Subscript) and ast.unparse(comps[1].value) == ix and idx_ok(comps[1]) and \
                    isinstance(d_.value, ast.Subscript) and ast.unparse(d_.value.value) == ct and idx_ok(d_.value)
                if isinstance(d_, ast.AugAssign):
                    okd = okd and isinstance(d_.op, ast.Add)
        rep.ob('R-TPL(pulse)', tag + ' deposit', okd, (det or 'deposit statements not found') + '; expected index %s on all four arrays' % canon, rel, deps[0].lineno if deps else fn.lineno,
               what='deposits use the same index (":" at position K, loop variables elsewhere in order) for bracket indices and contributions')
        col = [n for n in inner if isinstance(n, ast.Assign) and isinstance(n.targets[0], ast.Subscript) and ast.unparse(n.targets[0].value) == 'phi']
        okc = len(col) == 1 and idx_ok(col[0].targets[0]) and isinstance(col[0].value, ast.Call) and dotted(col[0].value.func) == 'Numerics.trapz' and \
            ast.unparse(col[0].value.args[0]) == S and len(col[0].value.args) == 2 and ast.unparse(col[0].value.args[1]) in grids and {k.arg: ast.unparse(k.value) for k in col[0].value.keywords} == {'axis': '0'}
        if not okc and len(col) == 1 and idx_ok(col[0].targets[0]) and isinstance(col[0].value, ast.Call) and dotted(col[0].value.func) == 'Numerics.trapz' and len(col[0].value.args) == 1 \
                and ast.unparse(col[0].value.args[0]) == S:
            # the spacing handed over as dx = numpy.diff(grid) (trapz computes exactly that from the grid)
            kw_ = {k.arg: k.value for k in col[0].value.keywords}
            dxv = inline(kw_['dx'], sing) if 'dx' in kw_ else None
            okc = set(kw_) == {'dx', 'axis'} and ast.unparse(kw_['axis']) == '0' and isinstance(dxv, ast.Call) and dotted(dxv.func) in ('numpy.diff', 'np.diff') and len(dxv.args) == 1 and ast.unparse(dxv.args[0]) in grids
        rep.ob('R-TPL(pulse)', tag + ' collapse', okc, ast.unparse(col[0]) if col else 'no collapse', rel, col[0].lineno if col else fn.lineno,
               what='old destination axis integrated out with trapz(axis=0) into the same index')
        ret = [n for n in fn.body if isinstance(n, ast.Return)]
        rep.ob('R-FLOW', tag + ' return', len(ret) == 1 and ast.unparse(ret[0].value) == 'phi', 'returns %s' % (ast.unparse(ret[0].value) if ret else ''), rel, fn.lineno, what='returns phi')
        doc = ast.get_docstring(fn) or ''
        rep.ob('R-PURE', tag + ' documentation', bool(re.search(r'in[- ]?place', doc, re.I)), 'docstring states the in-place update', rel, fn.lineno, what='documented as in-place')
    if n_p != 14:
        raise AnalysisError('expected 14 pulse functions, found %d' % n_p)


def check_reorder(rep, prog, m):
    rel = m.rel
    fn = prog.func(PM, 'reorder_pops')
    txt = [ast.unparse(s) for s in fn.body if not (isinstance(s, ast.Expr) and isinstance(s.value, ast.Constant))]
    okv = any(isinstance(s, ast.If) and ast.unparse(s.test) == 'sorted(neworder) != [_ + 1 for _ in range(phi.ndim)]' and any(isinstance(x, ast.Raise) for x in s.body) for s in fn.body)
    sing = single_assignments(fn)
    na = sing.get('newaxes')
    okt = na is not None and ast.unparse(na) == '[_ - 1 for _ in neworder]' and any('phi.transpose(newaxes)' in t for t in txt)
    rep.ob('R-IDX', 'PhiManip.reorder_pops', okv and okt, '; '.join(txt)[:200], rel, fn.lineno, what='neworder validated as a permutation of 1..D; axes transposed by neworder-1')
    from rules import c04
    c04.check_marginalisation(rep, prog)


def run(rep, prog, tier):
    # remove_pop / filter_pops integrate a population out with Numerics.trapz: the primitive itself (all its return paths)
    from rules import c04
    c04.check_trapz(rep, prog)
    m = prog.mod(PM)
    rep.saw_file(m.rel)
    for q, fn in m.funcs.items():
        if q.startswith(('phi_', '_', 'remove', 'filter', 'reorder', 'check_xx')) and '.' not in q:
            generic.rule_name(rep, prog, m, fn)
            generic.rule_def(rep, m, fn)
            generic.rule_sig(rep, prog, m, fn)
    check_deposition(rep, prog, m)
    check_helpers(rep, prog, m)
    check_constructors(rep, prog, m)
    check_pulses(rep, prog, m)
    check_reorder(rep, prog, m)
    rep.floor('R-TPL(pulse)', 110)
    rep.floor('R-ALG', 20)
