"""C07 - Grid extrapolation is exact for polynomial grid dependence with 1-6 grid sizes (DESIGN.md C07)."""
import ast
from fractions import Fraction
from sa import generic
from sa.algebra import Rat, Poly, AlgebraError, parse_expr
from sa.extract import straightline, single_assignments, inline, assignments_to, names_in
from sa.srcmodel import func_params, own_nodes, dotted, positional_params
from sa.tags import TagAnalysis, run_tags
from sa.report import AnalysisError

EXPLANATION = (
    "Decides the structural content of C07 from the source of dadi/Numerics.py: (1) R-NAME/R-EXH - the dispatch of "
    "make_extrap_func on the number of grid sizes reaches, for every k=1..6, exactly one handler that exists in the "
    "repository and whose tuple unpacking has arity k, and raises otherwise; (2) R-ALG - the return expression of each "
    "handler is, as an identity of rational functions in 2k symbols, the Lagrange interpolant through (x_i,y_i) "
    "evaluated at x=0 (hence exact for polynomials of degree < k and symmetric under reordering the grid list); "
    "(3) R-SPACE typestate - in log mode log() is applied to every result before and exp() after the extrapolation, the "
    "failure test compares natural-space values, (4) fallback plumbing - best input chosen by argmin of the x values, "
    "failure test |log10(ex/best)| > fail_mag, failing entries overwritten from the best input, pop_ids copied, pts taken "
    "positionally or by keyword (and removed from kwargs); (5) from_phi records extrap_x = first interior grid point on "
    "every returning path. Floating-point evaluation error of the formulas is not decided.")
TECHNIQUE = "name resolution + dispatch exhaustiveness + rational-function normal forms + log/nat typestate"
DECLINED = ["floating-point rounding of the extrapolation formulas", "behaviour of user-supplied model functions"]

MOD = 'dadi.Numerics'


def lagrange_at_zero(k, ys='ys', xs='xs'):
    tot = Rat.const(0)
    for i in range(k):
        term = Rat.atom('%s[%d]' % (ys, i))
        for j in range(k):
            if j != i:
                xj, xi = Rat.atom('%s[%d]' % (xs, j)), Rat.atom('%s[%d]' % (xs, i))
                term = term * xj / (xj - xi)
        tot = tot + term
    return tot


def inplace_on_params(fn):
    """in-place operations on names that alias a parameter or an element unpacked / subscripted from one (flow-insensitive closure)"""
    alias = set(func_params(fn))
    changed = True
    while changed:
        changed = False
        for n in own_nodes(fn):
            if isinstance(n, ast.Assign):
                v = n.value
                src = None
                if isinstance(v, ast.Name) and v.id in alias:
                    src = v.id
                elif isinstance(v, ast.Subscript) and isinstance(v.value, ast.Name) and v.value.id in alias:
                    src = v.value.id
                if src is None:
                    continue
                for t in n.targets:
                    for x in ([t] if isinstance(t, ast.Name) else list(t.elts) if isinstance(t, (ast.Tuple, ast.List)) else []):
                        if isinstance(x, ast.Name) and x.id not in alias:
                            alias.add(x.id)
                            changed = True
            elif isinstance(n, ast.For):
                if isinstance(n.iter, ast.Name) and n.iter.id in alias:
                    for x in ast.walk(n.target):
                        if isinstance(x, ast.Name) and x.id not in alias:
                            alias.add(x.id)
                            changed = True
    # names that are re-bound to fresh values by a plain non-alias assignment are still treated as aliases (conservative
    # only for names that ever aliased an input); the Lagrange handlers have no such re-binding
    bad = []
    for n in own_nodes(fn):
        if isinstance(n, ast.AugAssign):
            b = n.target
            while isinstance(b, (ast.Subscript, ast.Attribute)):
                b = b.value
            if isinstance(b, ast.Name) and b.id in alias:
                bad.append('`%s` (line %d) updates `%s` in place' % (ast.unparse(n)[:50], n.lineno, b.id))
        elif isinstance(n, ast.Assign):
            for t in n.targets:
                if isinstance(t, ast.Subscript):
                    b = t
                    while isinstance(b, (ast.Subscript, ast.Attribute)):
                        b = b.value
                    if isinstance(b, ast.Name) and b.id in alias:
                        bad.append('`%s` (line %d) stores into `%s`' % (ast.unparse(n)[:50], n.lineno, b.id))
        elif isinstance(n, ast.Call):
            for k_ in n.keywords:
                if k_.arg == 'out' and isinstance(k_.value, ast.Name) and k_.value.id in alias:
                    bad.append('`%s` (line %d) writes into `%s` through out=' % (ast.unparse(n)[:50], n.lineno, k_.value.id))
            if isinstance(n.func, ast.Attribute) and n.func.attr in ('sort', 'fill', 'resize', 'put', 'itemset', 'partition') and isinstance(n.func.value, ast.Name) and n.func.value.id in alias:
                bad.append('`%s` (line %d) is an in-place method on `%s`' % (ast.unparse(n)[:50], n.lineno, n.func.value.id))
    return bad


def find_dispatch(fn):
    """the if/elif chain testing len(<pts>) == K; returns (list of (K, body), else body, chain head)"""
    for n in own_nodes(fn):
        if isinstance(n, ast.If) and not (isinstance(getattr(n, '_parent', None), ast.If) and n in n._parent.orelse):
            arms, cur, var = [], n, None
            while True:
                t = cur.test
                if not (isinstance(t, ast.Compare) and len(t.ops) == 1 and isinstance(t.ops[0], ast.Eq)
                        and isinstance(t.left, ast.Call) and dotted(t.left.func) == 'len'
                        and isinstance(t.comparators[0], ast.Constant) and isinstance(t.comparators[0].value, int)):
                    break
                v = ast.unparse(t.left.args[0])
                if var is None:
                    var = v
                elif var != v:
                    break
                arms.append((t.comparators[0].value, cur.body, cur))
                if len(cur.orelse) == 1 and isinstance(cur.orelse[0], ast.If):
                    cur = cur.orelse[0]
                    continue
                if len(arms) >= 3:
                    return arms, cur.orelse, n, var
                break
    return None


def run(rep, prog, tier):
    m = prog.mod(MOD)
    rep.saw_file(m.rel)
    outer = prog.func(MOD, 'make_extrap_func')
    ef = prog.func(MOD, 'make_extrap_func.extrap_func')
    logf = prog.func(MOD, 'make_extrap_log_func')

    # ---- R-NAME / R-DEF / R-SIG on the wrappers --------------------------------------------
    for fn in (outer, ef, logf):
        generic.rule_name(rep, prog, m, fn)
        generic.rule_def(rep, m, fn)
        generic.rule_sig(rep, prog, m, fn)

    # ---- R-EXH: dispatch on the number of grid sizes ------------------------------------------
    # decided by finite-domain abstract execution of make_extrap_func(func)(pts_l) for 0..7 grid sizes: which handler is
    # called, with which lists - however the selection is written (if/elif chain, table, helper returning the handler)
    from sa import miniexec as mx
    from sa import alpha
    known = alpha.load_table().get('__params__', {}).get(m.rel)
    known = set(known) if known is not None else set(m.funcs)

    def hook(name, args, kwargs):
        if name in ('numpy.isscalar', 'np.isscalar'):
            return False
        return NotImplemented
    handlers = {}
    handler_fn_names = set()
    for k in range(0, 8):
        it = mx.Interp(prog, m, call_hook=hook, known_functions=known)

        def thunk(it=it, k=k):
            wrapper = it.call_function(outer, it.bind(outer, [mx.Sym('func', truth=True)], {'fail_mag': mx.Sym('fail_mag')}))
            if not isinstance(wrapper, mx.FuncRef):
                raise mx.Undecidable('make_extrap_func does not return a function')
            return it.apply(wrapper, [mx.Sym('pts_l', length=k)], {})
        paths = it.run_thunk(thunk, 'make_extrap_func(func)(pts_l)')
        problems = []
        chosen = set()
        for outcome, events, dec in paths:
            hcalls = [e for e in events if e[0] == 'call' and prog.has_func(MOD, e[1]) and e[1] not in ('make_extrap_func',)]
            if k == 0 or k == 7:
                if outcome[0] != 'raise' or hcalls:
                    problems.append('%d grid sizes: expected an exception, found %s' % (k, 'a call of ' + hcalls[0][1] if hcalls else outcome[0]))
                continue
            if outcome[0] != 'return':
                problems.append('%d grid sizes raise %s' % (k, outcome[1]))
                continue
            if k == 1:
                if hcalls or mx.show(outcome[1]) != 'func(pts_l[0])':
                    problems.append('a single grid size does not return the only result (%s)' % mx.show(outcome[1])[:60])
                continue
            if len(hcalls) != 1:
                problems.append('%d grid sizes: %d handler calls' % (k, len(hcalls)))
                continue
            _, hname, hargs, hkw = hcalls[0]
            chosen.add(hname)
            want_y = '[' + ', '.join('func(pts_l[%d])' % i for i in range(k)) + ']'
            want_x = '[' + ', '.join('func(pts_l[%d]).extrap_x' % i for i in range(k)) + ']'
            got = [mx.show(a) for a in hargs]
            if hkw or got != [want_y, want_x]:
                problems.append('%d grid sizes: %s receives (%s)' % (k, hname, ', '.join(g[:80] for g in got)))
        if 2 <= k <= 6 and len(chosen) == 1 and not problems:
            hname = next(iter(chosen))
            handlers[k] = (prog.func(MOD, hname), None)
            handler_fn_names.add(hname)
        elif 2 <= k <= 6 and not problems:
            problems.append('%d grid sizes: handlers %s' % (k, sorted(chosen)))
        rep.ob('R-EXH', 'Numerics.make_extrap_func dispatch k=%d' % k, not problems,
               '%d path(s) executed abstractly%s' % (len(paths), '' if not problems else ': ' + '; '.join(problems[:3])), m.rel, ef.lineno,
               what=('k = 2..6: exactly one handler, called with the results and their x values in the order of the grid list' if 2 <= k <= 6 else
                     'k = 1 returns the only result' if k == 1 else 'other counts raise'))
    # the call site(s) of the handlers in extrap_func: a two-argument call of a handler, or of the value of another call (a helper
    # that returns the handler)
    hsites = [n for n in own_nodes(ef) if isinstance(n, ast.Call) and len(n.args) == 2 and not n.keywords and all(isinstance(a, ast.Name) for a in n.args)
              and ((dotted(n.func) in handler_fn_names) or isinstance(n.func, (ast.Call, ast.Subscript)) or
                   (isinstance(n.func, ast.Name) and n.func.id not in ('map', 'zip', 'min', 'max', 'isinstance', 'getattr', 'hasattr', 'range', 'divmod', 'pow')
                    and prog.resolve_call(m, n, scope=ef) is None and n.func.id not in ('func', 'partial_func')))]
    if not hsites:
        raise AnalysisError('anchor vanished: the call of the extrapolation handler in make_extrap_func.extrap_func')
    resvar = None
    for n in hsites:
        par = getattr(n, '_parent', None)
        if isinstance(par, ast.Assign) and len(par.targets) == 1 and isinstance(par.targets[0], ast.Name):
            resvar = resvar or par.targets[0].id
    if resvar is None:
        raise AnalysisError('anchor vanished: the variable that receives the extrapolated result in extrap_func')
    for k, (callee, _) in list(handlers.items()):
        handlers[k] = (callee, hsites[0])
        rep.ob('R-NAME', 'dispatch arm k=%d' % k, True, 'handler %s resolves to %s:%d' % (callee.name, callee._module.rel, callee.lineno), m.rel, hsites[0].lineno,
               what='handler %s exists' % callee.name)

    # ---- R-ALG: each handler is the Lagrange form at 0 -----------------------------------------
    for k, (callee, valnode) in sorted(handlers.items()):
        if callee is None:
            # k == 1: result is the single input itself
            ok = isinstance(valnode, ast.Subscript) and isinstance(valnode.slice, ast.Constant) and valnode.slice.value in (0, -1) and k == 1
            rep.ob('R-ALG', 'dispatch arm k=%d' % k, ok, 'single grid: result is %s' % ast.unparse(valnode), m.rel, valnode.lineno,
                   what='k=1 returns the only result')
            continue
        rep.saw_function(callee._module.rel + ':' + callee._qualname)
        generic.rule_name(rep, prog, callee._module, callee)
        params = positional_params(callee)
        if len(params) != 2:
            rep.ob('R-ALG', callee._qualname, False, 'handler takes %d parameters, expected (ys, xs)' % len(params),
                   callee._module.rel, callee.lineno, what='signature (ys, xs)')
            continue
        # arity of the tuple unpacking
        ar = {}
        for st in callee.body:
            if isinstance(st, ast.Assign) and isinstance(st.targets[0], (ast.Tuple, ast.List)) and isinstance(st.value, ast.Name):
                ar[st.value.id] = len(st.targets[0].elts)
        for p in params:
            if p in ar:
                rep.ob('R-EXH', callee._qualname, ar[p] == k, 'unpacks %d values from %s, called with %d grid sizes' % (ar[p], p, k),
                       callee._module.rel, callee.lineno, what='unpacking arity of %s equals k' % p)
        try:
            env, ret = straightline(callee)
        except AlgebraError as e:
            # not a branch-free formula (a loop over the points, a helper): evaluate it abstractly on k symbolic points
            try:
                it = mx.Interp(prog, callee._module, known_functions=known)
                paths = it.run(callee, {params[0]: mx.Sym(params[0], length=k), params[1]: mx.Sym(params[1], length=k)})
                if len(paths) != 1 or paths[0][0][0] != 'return' or not isinstance(paths[0][0][1], mx.Sym):
                    raise AnalysisError('handler %s is not recognised as a formula: %s' % (callee._qualname, e))
                ret = parse_expr(paths[0][0][1].text)
            except (mx.Undecidable, AlgebraError) as e2:
                raise AnalysisError('handler %s is not recognised as a formula: %s / %s' % (callee._qualname, e, e2))
        if ret is None:
            rep.ob('R-ALG', callee._qualname, False, 'handler returns nothing', callee._module.rel, callee.lineno, what='lagrange form')
            continue
        # the handler must not update its inputs in place: the results it combines are used again afterwards (fallback test,
        # best_result), and by contract they are arrays / spectra, for which `a *= w` writes into the caller's object
        bad = inplace_on_params(callee)
        rep.ob('R-PURE', callee._qualname, not bad, '; '.join(bad) if bad else 'no in-place operation on (aliases of) the inputs', callee._module.rel, callee.lineno,
               what='the combined results are not modified')
        ref = lagrange_at_zero(k, params[0], params[1])
        ok = ret.equals(ref)
        rep.ob('R-ALG', callee._qualname, ok,
               'return expression == sum_i y_i prod_{j!=i} x_j/(x_j-x_i) (degree %d, %d numerator terms compared)' % (k - 1, len(ref.n.t))
               if ok else 'return expression is NOT the Lagrange interpolant at 0 through %d points: got %s' % (k, ret.canon()[:300]),
               callee._module.rel, callee.lineno, what='Lagrange interpolant at x=0')
        if tier == 'thorough' and ok:
            from sa.algebra import random_identity_test
            z = random_identity_test(ret, ref, trials=8)
            rep.ob('R-ALG/eval', callee._qualname, z is True, 'handler and Lagrange form agree at 8 random exact rational points '
                   '(independent of the normaliser)', callee._module.rel, callee.lineno, what='Lagrange interpolant at x=0 (exact evaluation)')
            if k <= 3:
                import sympy
                from sa.algebra import to_sympy
                ex, _ = to_sympy(ret - ref)
                z = sympy.cancel(sympy.together(ex)) == 0
                rep.ob('R-ALG/sympy', callee._qualname, bool(z), 'sympy.cancel(handler - lagrange) == 0', callee._module.rel,
                       callee.lineno, what='Lagrange interpolant at x=0 (sympy)')

    # ---- R-SPACE typestate in both worlds -----------------------------------------------------
    handler_names = set(handler_fn_names)
    hsite_ids = {id(n) for n in hsites}
    for world_log in (False, True):
        space = 'log' if world_log else 'nat'
        divs = []

        def call_rule(an, e, args, kws, s):
            fn = dotted(e.func) or ''
            last = fn.split('.')[-1]
            if last == 'log' and fn.split('.')[0] in ('numpy', 'np', 'math'):
                return {'nat': 'log'}.get(args[0], 'bad:log(%s)' % args[0]) if args and args[0] in ('nat', 'log') else None
            if last == 'exp' and fn.split('.')[0] in ('numpy', 'np', 'math'):
                return {'log': 'nat'}.get(args[0], 'bad:exp(%s)' % args[0]) if args and args[0] in ('nat', 'log') else None
            if fn in ('map',) and len(e.args) == 2:
                return 'nat' if dotted(e.args[0]) in ('partial_func', 'func') else None
            if fn in ('partial_func', 'func'):
                return 'nat'
            if fn in ('list', 'tuple', 'numpy.asarray', 'numpy.array'):
                return args[0] if args else None
            if fn in handler_names or id(e) in hsite_ids:
                return args[0] if args else None
            return None

        def attr_rule(an, e, s):
            if e.attr == 'extrap_x':
                return 'x'
            return NotImplemented

        def binop_rule(an, e, l, r, s):
            if isinstance(e.op, ast.Div):
                divs.append((e, l, r))
            return NotImplemented

        an, exits = run_tags(ef, seeds={'extrap_x_l': 'x'}, world={'extrap_log': world_log, 'no_extrap': False, 'x_l_from_results': True},
                             call_rule=call_rule, attr_rule=attr_rule, binop_rule=binop_rule)
        n_handler_calls = 0
        for (e, args, kws, s) in an.calls:
            if dotted(e.func) in handler_names or id(e) in hsite_ids:
                n_handler_calls += 1
                ok = len(args) == 2 and args[0] == space and args[1] == 'x'
                rep.ob('R-SPACE', 'extrap_func[extrap_log=%s] call %s' % (world_log, dotted(e.func) or 'handler'), ok,
                       'arguments carry tags %s; expected (%s results, x values)' % (args, space), m.rel, e.lineno,
                       what='handler receives %s-space results and the x list' % space)
        rets = [(st, t) for (st, t, s) in an.returns]
        if not rets:
            raise AnalysisError('no return found in extrap_func')
        for st, t in rets:
            rep.ob('R-SPACE', 'extrap_func[extrap_log=%s] return' % world_log, t == 'nat',
                   'returned value carries tag %r (must be natural space)' % (t,), m.rel, st.lineno, what='result is in natural space')
        ratio = [(e, l, r) for (e, l, r) in divs if l in ('nat', 'log', 'mixed') or r in ('nat', 'log', 'mixed')
                 if not (l == 'x' or r == 'x')]
        for e, l, r in ratio:
            rep.ob('R-SPACE', 'extrap_func[extrap_log=%s] ratio %s' % (world_log, ast.unparse(e)), l == 'nat' and r == 'nat',
                   'operands carry tags (%s, %s); the failure test must compare natural-space values' % (l, r), m.rel, e.lineno,
                   what='failure test compares natural-space values')
        # the failure criterion is stated in decades: |log10(extrapolated / finest)| > fail_mag, both in natural space
        # (a difference of natural logarithms is in units of ln, 2.3 times finer than decades)
        cmps = [n for n in own_nodes(ef) if isinstance(n, ast.Compare) and any(isinstance(c, ast.Name) and c.id == 'fail_mag' for c in [n.left] + n.comparators)]
        live = []
        for c in cmps:
            # keep the comparisons reachable in this world (guards on extrap_log)
            par, child, ok_world = getattr(c, '_parent', None), c, True
            while par is not None and par is not ef:
                if isinstance(par, ast.If) and ast.unparse(par.test) in ('extrap_log', 'not extrap_log'):
                    in_body = any(child is x or any(child is y for y in ast.walk(x)) for x in par.body)
                    want_true = (ast.unparse(par.test) == 'extrap_log') == in_body
                    if want_true != world_log:
                        ok_world = False
                child, par = par, getattr(par, '_parent', None)
            if ok_world:
                live.append(c)
        okc = len(live) == 1
        det = '%d comparisons with fail_mag are reachable' % len(live)
        if okc:
            c = live[0]
            lhs = c.left if not (isinstance(c.left, ast.Name) and c.left.id == 'fail_mag') else c.comparators[0]
            inner = lhs.args[0] if isinstance(lhs, ast.Call) and (dotted(lhs.func) or '').split('.')[-1] in ('abs', 'absolute', 'fabs') and len(lhs.args) == 1 else None
            isdec = isinstance(inner, ast.Call) and (dotted(inner.func) or '') in ('numpy.log10', 'np.log10', 'math.log10') and len(inner.args) == 1
            arg = inner.args[0] if isdec else None
            tags = [(l, r) for (e, l, r) in divs if e is arg]
            okc = isdec and bool(tags) and set(tags) == {('nat', 'nat')} and isinstance(c.ops[0], (ast.Gt, ast.GtE) if lhs is c.left else (ast.Lt, ast.LtE))
            det = 'criterion `%s`; operand tags %s' % (ast.unparse(c), tags)
        rep.ob('R-SPACE', 'extrap_func[extrap_log=%s] failure criterion' % world_log, okc, det, m.rel, live[0].lineno if live else ef.lineno,
               what='failure criterion is |log10(extrapolated/finest)| > fail_mag with natural-space operands (units of decades)')
    rep.floor('R-SPACE', 2 * (len(hsites) + 2), 'handler calls, returns and the failure ratio in two worlds')

    # ---- fallback plumbing ---------------------------------------------------------------------
    singles = single_assignments(ef)
    # results list and x list names, as passed to the handlers
    any_call = hsites[0]
    res_name, x_name = ast.unparse(any_call.args[0]), ast.unparse(any_call.args[1])
    # (a) best input chosen by argmin over the x list
    best = None
    for n in own_nodes(ef):
        if isinstance(n, ast.Assign) and isinstance(n.value, ast.Subscript) and ast.unparse(n.value.value) == res_name \
                and isinstance(n.targets[0], ast.Name) and not isinstance(n.value.slice, ast.Constant):
            best = n
    if best is None:
        cand = [n for n in own_nodes(ef) if isinstance(n, ast.Assign) and isinstance(n.value, ast.Subscript)
                and ast.unparse(n.value.value) == res_name and isinstance(n.targets[0], ast.Name)
                and n.targets[0].id != resvar]
        best = cand[-1] if cand else None
    if best is None:
        raise AnalysisError('anchor vanished: selection of the best input result in extrap_func')
    idx = inline(best.value.slice, singles)
    ok = isinstance(idx, ast.Call) and (dotted(idx.func) or '').split('.')[-1] == 'argmin' and \
        ((idx.args and ast.unparse(idx.args[0]) == x_name) or (isinstance(idx.func, ast.Attribute) and ast.unparse(idx.func.value) == x_name))
    rep.ob('R-FLOW', 'extrap_func fallback', ok,
           'best input = %s[%s]; it must be selected by argmin over the x values so that the order of the grid list is irrelevant'
           % (res_name, ast.unparse(idx)), m.rel, best.lineno, what='best input selected by argmin(x)')
    best_name = best.targets[0].id
    # (b) failure test
    ft = None
    for n in own_nodes(ef):
        if isinstance(n, ast.Assign) and isinstance(n.value, ast.Compare) and names_in(n.value) >= {resvar, best_name}:
            ft = n
    if ft is None:
        raise AnalysisError('anchor vanished: extrapolation failure test in extrap_func')
    c = ft.value
    okf = len(c.ops) == 1 and isinstance(c.ops[0], (ast.Gt, ast.GtE)) and ast.unparse(c.comparators[0]) == 'fail_mag'
    lhs = c.left
    okf = okf and isinstance(lhs, ast.Call) and (dotted(lhs.func) or '').split('.')[-1] in ('abs', 'absolute', 'fabs')
    inner = lhs.args[0] if okf and lhs.args else None
    okf = okf and isinstance(inner, ast.Call) and (dotted(inner.func) or '').split('.')[-1] == 'log10'
    ratio = inner.args[0] if okf else None
    okf = okf and isinstance(ratio, ast.BinOp) and isinstance(ratio.op, ast.Div) and \
        {ast.unparse(ratio.left), ast.unparse(ratio.right)} == {resvar, best_name}
    rep.ob('R-ALG', 'extrap_func fallback', bool(okf), 'failure test is %s' % ast.unparse(c), m.rel, ft.lineno,
           what='failure test |log10(ex/best)| > fail_mag')
    mask = ft.targets[0].id if isinstance(ft.targets[0], ast.Name) else None
    # (c) failing entries overwritten by the best input
    ow = [n for n in own_nodes(ef) if isinstance(n, ast.Assign) and isinstance(n.targets[0], ast.Subscript)
          and ast.unparse(n.targets[0].value) == resvar]
    okw = any(ast.unparse(n.targets[0].slice) == mask and isinstance(n.value, ast.Subscript)
              and ast.unparse(n.value.value) == best_name and ast.unparse(n.value.slice) == mask for n in ow)
    rep.ob('R-FLOW', 'extrap_func fallback', okw, 'entries where the test fails are overwritten: %s'
           % '; '.join(ast.unparse(n) for n in ow), m.rel, ow[0].lineno if ow else ft.lineno, what='failing entries fall back to the best input')
    # (d) labels
    pid = [n for n in own_nodes(ef) if isinstance(n, ast.Assign) and isinstance(n.targets[0], ast.Attribute)
           and n.targets[0].attr == 'pop_ids' and ast.unparse(n.targets[0].value) == resvar]
    okp = any(isinstance(n.value, ast.Attribute) and n.value.attr == 'pop_ids' and res_name in ast.unparse(n.value.value) for n in pid)
    rep.ob('R-FLOW', 'extrap_func labels', okp, 'pop_ids copied from the input results onto the extrapolated result', m.rel,
           pid[0].lineno if pid else ef.lineno, what='pop_ids preserved')
    # (e) pts by keyword: removed from kwargs before the partial application
    has_del = any(isinstance(n, ast.Delete) and any(isinstance(t, ast.Subscript) and ast.unparse(t.value) == 'kwargs'
                  and isinstance(t.slice, ast.Constant) and t.slice.value == 'pts' for t in n.targets) for n in own_nodes(ef))
    pops = any(isinstance(n, ast.Call) and dotted(n.func) == 'kwargs.pop' and n.args and isinstance(n.args[0], ast.Constant)
               and n.args[0].value == 'pts' for n in own_nodes(ef))
    rep.ob('R-FLOW', 'extrap_func pts', has_del or pops, "keyword 'pts' is removed from kwargs before the model is partially applied",
           m.rel, ef.lineno, what='pts keyword consumed')
    # (f) the log variant sets extrap_log=True
    okl = False
    for n in own_nodes(logf):
        if isinstance(n, ast.Call) and dotted(n.func) == 'make_extrap_func':
            b, _ = __import__('sa.srcmodel', fromlist=['bind_call']).bind_call(outer, n)
            v = b.get('extrap_log')
            okl = isinstance(v, ast.Constant) and v.value is True
            xl = b.get('extrap_x_l')
            okl = okl and (xl is None or ast.unparse(xl) == 'extrap_x_l')
    rep.ob('R-IDX', 'make_extrap_log_func', okl, 'delegates to make_extrap_func with extrap_log=True and forwards extrap_x_l', m.rel,
           logf.lineno, what='log variant wiring')

    # ---- from_phi records extrap_x ----------------------------------------------------------------
    sm = prog.mod('dadi.Spectrum_mod')
    for q in ('Spectrum.from_phi', 'Spectrum.from_phi_inbreeding'):
        fp = prog.func('dadi.Spectrum_mod', q)
        sets = [n for n in own_nodes(fp) if isinstance(n, ast.Assign) and isinstance(n.targets[0], ast.Attribute)
                and n.targets[0].attr == 'extrap_x']
        params_ = set(func_params(fp))

        def is_grid_list(e, depth=0):
            """the list of grids itself: the parameter xxs, or a display / name bound only to displays of grid parameters"""
            if isinstance(e, ast.Name):
                if e.id in params_:
                    return True
                binds = [a.value for a in own_nodes(fp) if isinstance(a, ast.Assign) and any(isinstance(t, ast.Name) and t.id == e.id for t in a.targets)]
                return bool(binds) and depth < 3 and all(is_grid_list(b, depth + 1) for b in binds)
            if isinstance(e, (ast.Tuple, ast.List)):
                return all(isinstance(x, ast.Name) and x.id in params_ for x in e.elts)
            return False
        ok = bool(sets) and all(isinstance(n.value, ast.Subscript) and isinstance(n.value.slice, ast.Constant) and n.value.slice.value == 1
                                and isinstance(n.value.value, ast.Subscript) and isinstance(n.value.value.slice, ast.Constant)
                                and n.value.value.slice.value == 0 and is_grid_list(n.value.value.value) for n in sets)
        rep.ob('R-FLOW', '%s extrap_x' % q, ok, 'extrap_x = first interior point of the first grid: %s'
               % '; '.join(ast.unparse(n) for n in sets), sm.rel, sets[0].lineno if sets else fp.lineno, what='extrap_x recorded')
    rep.floor('R-ALG', 6)
    rep.floor('R-EXH', 8)
