#!/usr/bin/env python3
"""Behaviour-preserving (up to round-off of commutative floating-point operations, which is exact for + and *) refactoring for
false-alarm testing: swap the operands of a fraction of the binary + and * operations whose operands are plain names,
attributes, constants or subscripts on one line. In place; use on a scratch copy."""
import ast, sys, random, argparse
ap = argparse.ArgumentParser(); ap.add_argument('--fraction', type=float, default=0.5); ap.add_argument('--seed', type=int, default=1); ap.add_argument('files', nargs='+')
a = ap.parse_args(); rnd = random.Random(a.seed); total = 0
SIMPLE = (ast.Name, ast.Attribute, ast.Constant, ast.Subscript)
for path in a.files:
    src = open(path, encoding='utf-8').read()
    try: tree = ast.parse(src)
    except SyntaxError: continue
    blines = [l.encode('utf-8') for l in src.splitlines(keepends=True)]
    edits = []; taken = set()
    for fn in ast.walk(tree):
        if not isinstance(fn, ast.FunctionDef): continue
        for n in ast.walk(fn):
            if isinstance(n, ast.BinOp) and isinstance(n.op, (ast.Add, ast.Mult)) and isinstance(n.left, SIMPLE) and isinstance(n.right, SIMPLE) \
                    and n.lineno == n.end_lineno and rnd.random() < a.fraction:
                if isinstance(n.left, ast.Constant) and isinstance(n.left.value, str) or isinstance(n.right, ast.Constant) and isinstance(n.right.value, str): continue
                # strings / lists concatenate non-commutatively: only numeric-looking operands (heuristic: skip names bound to list displays is not attempted; tests decide)
                L, R = n.left, n.right
                if L.lineno != n.lineno or R.end_lineno != n.lineno: continue
                span = (n.lineno, L.col_offset, R.end_col_offset)
                if any(s[0] == span[0] and not (span[2] <= s[1] or s[2] <= span[1]) for s in taken): continue
                b = blines[n.lineno - 1]
                ltxt, mid, rtxt = b[L.col_offset:L.end_col_offset], b[L.end_col_offset:R.col_offset], b[R.col_offset:R.end_col_offset]
                if b'(' in mid or b')' in mid: continue
                edits.append((n.lineno, L.col_offset, R.end_col_offset, rtxt + mid + ltxt)); taken.add(span)
    for ln, c0, c1, new in sorted(edits, reverse=True):
        b = blines[ln - 1]; blines[ln - 1] = b[:c0] + new + b[c1:]
    out = b''.join(blines).decode('utf-8')
    try: ast.parse(out)
    except SyntaxError: continue
    open(path, 'w', encoding='utf-8').write(out); total += len(edits)
print('commuted %d operations' % total)
