#!/usr/bin/env python3
"""Behaviour-preserving refactoring used to test the checks for false alarms: consistently rename the local variables of
every function in the given Python files (x -> x_<suffix>), leaving parameters, globals, attributes and keyword names alone.

usage: rename_locals.py [--suffix r] [--fraction 1.0] [--seed 0] file.py ...      (files are rewritten in place: use on a scratch copy)

Functions that use exec/eval/locals()/vars()/global/nonlocal or contain class definitions are skipped."""
import ast, sys, argparse, random


def own(fn):
    """nodes of fn including nested lambdas/comprehensions/defs (closures see the renamed names too)"""
    return list(ast.walk(fn))


def locals_of(fn):
    params = set()
    for n in ast.walk(fn):
        if isinstance(n, ast.arguments):
            for a in n.posonlyargs + n.args + n.kwonlyargs + ([n.vararg] if n.vararg else []) + ([n.kwarg] if n.kwarg else []):
                params.add(a.arg)
    bound = set()
    for n in ast.walk(fn):
        if isinstance(n, ast.Name) and isinstance(n.ctx, (ast.Store, ast.Del)):
            bound.add(n.id)
    # names that are nested function / class names or imported inside stay as they are
    keep = set()
    for n in ast.walk(fn):
        if isinstance(n, (ast.FunctionDef, ast.ClassDef, ast.AsyncFunctionDef)) and n is not fn:
            keep.add(n.name)
        elif isinstance(n, ast.alias):
            keep.add((n.asname or n.name).split('.')[0])
        elif isinstance(n, ast.ExceptHandler) and n.name:
            keep.add(n.name)
    return bound - params - keep


def unsafe(fn):
    for n in ast.walk(fn):
        if isinstance(n, (ast.Global, ast.Nonlocal, ast.ClassDef)):
            return True
        if isinstance(n, ast.Call) and isinstance(n.func, ast.Name) and n.func.id in ('exec', 'eval', 'locals', 'vars', 'globals'):
            return True
        if isinstance(n, ast.JoinedStr):
            pass
    return False


def main():
    ap = argparse.ArgumentParser()
    ap.add_argument('--suffix', default='r')
    ap.add_argument('--fraction', type=float, default=1.0)
    ap.add_argument('--seed', type=int, default=0)
    ap.add_argument('files', nargs='+')
    a = ap.parse_args()
    rnd = random.Random(a.seed)
    total = 0
    for path in a.files:
        src = open(path, encoding='utf-8').read()
        try:
            tree = ast.parse(src)
        except SyntaxError:
            continue
        lines = src.splitlines(keepends=True)
        blines = [l.encode('utf-8') for l in lines]
        edits = []      # (line, col_byte_start, col_byte_end, new)
        # top-level functions and methods only (nested functions are renamed as part of their parent)
        tops = []
        for n in tree.body:
            if isinstance(n, ast.FunctionDef):
                tops.append(n)
            elif isinstance(n, ast.ClassDef):
                tops.extend(m for m in n.body if isinstance(m, ast.FunctionDef))
        module_names = {t.id for n in tree.body if isinstance(n, ast.Assign) for t in n.targets if isinstance(t, ast.Name)}
        for fn in tops:
            if unsafe(fn):
                continue
            loc = {x for x in locals_of(fn) if rnd.random() < a.fraction}
            # do not create clashes
            used = {n.id for n in ast.walk(fn) if isinstance(n, ast.Name)} | {a_.arg for n in ast.walk(fn) if isinstance(n, ast.arguments) for a_ in n.posonlyargs + n.args + n.kwonlyargs}
            loc = {x for x in loc if (x + '_' + a.suffix) not in used and (x + '_' + a.suffix) not in module_names}
            if not loc:
                continue
            for n in ast.walk(fn):
                if isinstance(n, ast.Name) and n.id in loc:
                    edits.append((n.lineno, n.col_offset, n.end_col_offset, n.id + '_' + a.suffix))
            total += len(loc)
        # apply from the end
        for line, c0, c1, new in sorted(set(edits), reverse=True):
            b = blines[line - 1]
            blines[line - 1] = b[:c0] + new.encode('utf-8') + b[c1:]
        out = b''.join(blines).decode('utf-8')
        ast.parse(out)
        open(path, 'w', encoding='utf-8').write(out)
    print('renamed %d local variables' % total)


if __name__ == '__main__':
    main()
