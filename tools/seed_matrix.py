#!/usr/bin/env python3
"""Which check catches which seeded change.

For every directory under /verif/seeded: make a scratch worktree of /repo HEAD under /tmp, apply patch.diff, run all
checks against it (VERIF_REPO, evidence redirected to a scratch directory), remove the worktree.  Writes
/verif/seeded/CATCH_MATRIX.json and prints a table.  /repo itself is never modified.

usage: seed_matrix.py [--jobs N] [--only SEED ...] [--checks C01 C02 ...]"""
import os, sys, json, subprocess, shutil, argparse, tempfile
from concurrent.futures import ThreadPoolExecutor

VERIF = os.path.dirname(os.path.dirname(os.path.abspath(__file__)))
ALL = ['C%02d' % i for i in range(1, 21)]


SEEDDIR = [os.path.join(VERIF, 'seeded')]


def run_seed(seed, checks):
    sd = os.path.join(SEEDDIR[0], seed)
    wt = tempfile.mkdtemp(prefix='sm_%s_' % seed, dir='/tmp')
    ev = tempfile.mkdtemp(prefix='smev_%s_' % seed, dir='/tmp')
    os.rmdir(wt)
    res = {}
    try:
        for attempt in range(6):
            # concurrent `git worktree add` calls can collide on the repository lock: retried
            r0 = subprocess.run(['git', '-C', '/repo', 'worktree', 'add', '--detach', wt, 'HEAD'], capture_output=True, text=True)
            if r0.returncode == 0:
                break
            import time
            time.sleep(1 + attempt)
            shutil.rmtree(wt, ignore_errors=True)
        else:
            return seed, {'error': 'git worktree add failed: ' + r0.stderr[:200]}
        r = subprocess.run(['git', '-C', wt, 'apply', os.path.join(sd, 'patch.diff')], capture_output=True, text=True)
        if r.returncode:
            return seed, {'error': 'patch does not apply: ' + r.stderr[:200]}
        env = dict(os.environ, VERIF_REPO=wt, VERIF_EVIDENCE_DIR=ev)
        for c in checks:
            p = subprocess.run(['timeout', '600', 'python3-vt', os.path.join(VERIF, 'check.py'), c], capture_output=True, text=True, env=env)
            failed = [l.strip()[7:150] for l in p.stdout.splitlines() if l.startswith('  FAILED')]
            res[c] = {'rc': p.returncode, 'failed': failed[:4]}
    finally:
        subprocess.run(['git', '-C', '/repo', 'worktree', 'remove', '--force', wt], capture_output=True)
        shutil.rmtree(wt, ignore_errors=True)
        shutil.rmtree(ev, ignore_errors=True)
    return seed, res


def main():
    ap = argparse.ArgumentParser()
    ap.add_argument('--jobs', type=int, default=12)
    ap.add_argument('--only', nargs='*')
    ap.add_argument('--checks', nargs='*', default=ALL)
    ap.add_argument('--dir', default=None, help='directory holding <seed>/patch.diff (default /verif/seeded)')
    a = ap.parse_args()
    if a.dir:
        SEEDDIR[0] = a.dir
    seeds = sorted(d for d in os.listdir(SEEDDIR[0]) if os.path.isfile(os.path.join(SEEDDIR[0], d, 'patch.diff')))
    if a.only:
        seeds = [s for s in seeds if s in a.only]
    out = {}
    with ThreadPoolExecutor(a.jobs) as ex:
        for seed, res in ex.map(lambda s: run_seed(s, a.checks), seeds):
            out[seed] = res
            if 'error' in res:
                print('%-40s ERROR %s' % (seed, res['error']))
                continue
            own = seed.split('_')[0]
            caught = [c for c, r in res.items() if r['rc'] == 1]
            broken = [c for c, r in res.items() if r['rc'] not in (0, 1)]
            print('%-40s own=%s %-6s caught by: %s%s' % (seed, own, 'CAUGHT' if own in caught else 'MISSED', ' '.join(caught) or '-', ('  analysis-error: ' + ' '.join(broken)) if broken else ''))
            sys.stdout.flush()
    path = os.path.join(VERIF, 'seeded', 'CATCH_MATRIX.json')
    if not a.only and a.checks == ALL and not a.dir:
        with open(path, 'w') as f:
            json.dump(out, f, indent=1, sort_keys=True)
            f.write('\n')
    elif not a.dir and os.path.exists(path):
        # a partial run refreshes exactly the cells it computed
        old = json.load(open(path))
        for name, res in out.items():
            if 'error' not in res:
                old.setdefault(name, {}).update(res)
        with open(path, 'w') as f:
            json.dump(old, f, indent=1, sort_keys=True)
            f.write('\n')


if __name__ == '__main__':
    main()
