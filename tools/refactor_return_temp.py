#!/usr/bin/env python3
"""Behaviour-preserving refactoring for false-alarm testing: `return <expr>` -> `result_tmp_ = <expr>` / `return result_tmp_`
for every single-line return of a non-trivial expression at function-body level. In place; use on a scratch copy."""
import ast, sys
n_total = 0
for path in sys.argv[1:]:
    src = open(path, encoding='utf-8').read()
    try:
        tree = ast.parse(src)
    except SyntaxError:
        continue
    lines = src.splitlines(keepends=True)
    edits = []
    for fn in ast.walk(tree):
        if not isinstance(fn, ast.FunctionDef):
            continue
        for st in ast.walk(fn):
            if isinstance(st, ast.Return) and st.value is not None and not isinstance(st.value, (ast.Name, ast.Constant)) and st.lineno == st.end_lineno \
                    and not isinstance(st.value, (ast.Tuple,)) and not any(isinstance(x, (ast.Yield, ast.Lambda)) for x in ast.walk(st.value)):
                line = lines[st.lineno - 1]
                if line.strip().startswith('return ') and not line.rstrip().endswith('\\') and ';' not in line and line[:st.col_offset].strip() == '':
                    ind = line[:len(line) - len(line.lstrip())]
                    expr = line.strip()[len('return '):]
                    edits.append((st.lineno, '%sresult_tmp_ = %s\n%sreturn result_tmp_\n' % (ind, expr, ind)))
    for ln, new in sorted(set(edits), reverse=True):
        lines[ln - 1] = new
    out = ''.join(lines)
    try:
        ast.parse(out)
    except SyntaxError:
        continue
    open(path, 'w', encoding='utf-8').write(out)
    n_total += len(set(edits))
print('rewrote %d returns' % n_total)
