#!/bin/bash
# usage: try_seed.sh <patch.diff> <Cxx> [Cyy ...] : apply a seeded change to /repo, run the checks, revert
P=$1; shift
cd /repo && git apply --check "$P" || { echo "PATCH DOES NOT APPLY"; exit 3; }
git apply "$P"
for c in "$@"; do timeout 300 python3-vt /verif/check.py $c 2>&1 | grep -E "^(VIOLATION|ANALYSIS-ERROR|  FAILED|C[0-9]+ \[)" | cut -c1-330; done
git -C /repo checkout -- . 
git -C /repo status --short | grep -v '^??' | head -3
