#!/usr/bin/env python3
"""Behaviour-preserving API extension for false-alarm testing: append an optional keyword parameter `extra_opt_=None` to every
function of the given files that has no *args/**kwargs (nothing passes or reads it). In place; use on a scratch copy."""
import ast, sys
total = 0
for path in sys.argv[1:]:
    src = open(path, encoding='utf-8').read()
    try: tree = ast.parse(src)
    except SyntaxError: continue
    blines = [l.encode('utf-8') for l in src.splitlines(keepends=True)]
    edits = []
    for fn in ast.walk(tree):
        if not isinstance(fn, ast.FunctionDef): continue
        a = fn.args
        if a.vararg or a.kwarg or a.kwonlyargs or fn.decorator_list: continue
        params = a.posonlyargs + a.args
        if not params: continue
        last = params[-1]
        # position after the last parameter (after its default if it has one)
        end_node = a.defaults[-1] if a.defaults and len(a.defaults) >= 1 and params[-len(a.defaults):][-1] is last else last
        edits.append((end_node.end_lineno, end_node.end_col_offset))
    for ln, col in sorted(set(edits), reverse=True):
        b = blines[ln - 1]; blines[ln - 1] = b[:col] + b', extra_opt_=None' + b[col:]
    out = b''.join(blines).decode('utf-8')
    try: ast.parse(out)
    except SyntaxError: continue
    open(path, 'w', encoding='utf-8').write(out); total += len(set(edits))
print('added a parameter to %d functions' % total)
