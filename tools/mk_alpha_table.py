#!/usr/bin/env python3
"""Regenerate /verif/sa/alpha_names.json: for every function of /repo/dadi (module-level functions and methods), its local
variables in order of first binding.  Run on the tree on which the checks were confirmed (after every fix: commit)."""
import os, sys, ast, json
HERE = os.path.dirname(os.path.dirname(os.path.abspath(__file__)))
sys.path.insert(0, HERE)
from sa import alpha
REPO = os.environ.get('VERIF_REPO', '/repo')
out = {}
for dp, dn, fn in os.walk(os.path.join(REPO, 'dadi')):
    dn[:] = sorted(d for d in dn if d != '__pycache__')
    for f in sorted(fn):
        if not f.endswith('.py'):
            continue
        p = os.path.join(dp, f)
        rel = os.path.relpath(p, REPO)
        try:
            tree = ast.parse(open(p, encoding='utf-8').read())
        except SyntaxError:
            continue
        # the same canonical forms the loader applies before it pairs names
        alpha.strip_noops(tree); alpha.ifexp_statements_to_if(tree); alpha.method_reductions_to_functions(tree); alpha.split_independent_parallel_stores(tree); alpha.hoist_else_after_terminal_body(tree); alpha.bare_returns_to_nesting(tree); alpha.small_idioms(tree); alpha.set_alpha_parents(tree); alpha.inline_return_temporaries(tree)
        d = {}
        for q, node in alpha.top_functions(tree):
            if alpha.unsafe(node):
                continue
            names = alpha.binding_order(node)
            d[q] = names          # also functions without locals: a local that appears later is then known to be new
        if d:
            out[rel] = d
# operand order of the commutative operations of the confirmed form (after the same normalisations)
com = {}
for rel, fns in out.items():
    tree = ast.parse(open(os.path.join(REPO, rel), encoding='utf-8').read())
    alpha.strip_noops(tree); alpha.ifexp_statements_to_if(tree); alpha.method_reductions_to_functions(tree); alpha.split_independent_parallel_stores(tree); alpha.hoist_else_after_terminal_body(tree); alpha.bare_returns_to_nesting(tree); alpha.small_idioms(tree); alpha.set_alpha_parents(tree); alpha.inline_return_temporaries(tree)
    d = {}
    for q, node in alpha.top_functions(tree):
        if alpha.unsafe(node):
            continue
        pr = alpha.commutative_pairs(node)
        if pr:
            d[q] = [list(x) for x in pr]
    if d:
        com[rel] = d
out['__commutative__'] = com
pars = {}
for rel in list(com) + [r for r in out if r not in com and not r.startswith('__')]:
    if rel in pars:
        continue
    tree = ast.parse(open(os.path.join(REPO, rel), encoding='utf-8').read())
    pars[rel] = {q: alpha.own_param_list(node) for q, node in alpha.top_functions(tree)}
out['__params__'] = pars
with open(alpha.TABLE, 'w') as fh:
    json.dump(out, fh, indent=0, sort_keys=True)
    fh.write('\n')
print('functions:', sum(len(v) for k, v in out.items() if not k.startswith('__')))

# C functions: locals in order of declaration
os.environ['VERIF_NO_ALPHA'] = '1'
from sa import cfront
cp = cfront.CProgram(REPO)
ct = {name: cfront.c_locals(f) for name, f in sorted(cp.funcs.items()) if cfront.c_locals(f)}
ct['__functions__'] = sorted(cp.funcs)
with open(os.path.join(os.path.dirname(alpha.TABLE), 'alpha_names_c.json'), 'w') as fh:
    json.dump(ct, fh, indent=0, sort_keys=True)
    fh.write('\n')
print('C functions:', len(ct))
