#!/usr/bin/env python3
"""Behaviour-preserving edit for false-alarm testing: insert `pass` after a fraction of the simple statements (stand-in for
added logging / assertions that do not touch program state). In place; use on a scratch copy."""
import ast, sys, random, argparse
ap = argparse.ArgumentParser(); ap.add_argument('--fraction', type=float, default=0.1); ap.add_argument('--seed', type=int, default=1); ap.add_argument('files', nargs='+')
a = ap.parse_args(); rnd = random.Random(a.seed); total = 0
for path in a.files:
    src = open(path, encoding='utf-8').read()
    try: tree = ast.parse(src)
    except SyntaxError: continue
    lines = src.splitlines(keepends=True); ins = []
    for fn in ast.walk(tree):
        if not isinstance(fn, ast.FunctionDef): continue
        for st in ast.walk(fn):
            if isinstance(st, (ast.Assign, ast.AugAssign, ast.Expr)) and not (isinstance(st, ast.Expr) and isinstance(st.value, ast.Constant)) and rnd.random() < a.fraction:
                line = lines[st.lineno - 1]
                if line[:st.col_offset].strip() or ';' in line: continue
                last = lines[st.end_lineno - 1]
                if last.rstrip().endswith('\\'): continue
                ind = line[:len(line) - len(line.lstrip())]
                ins.append((st.end_lineno, ind + 'pass\n'))
    for ln, new in sorted(set(ins), reverse=True):
        lines.insert(ln, new)
    out = ''.join(lines)
    try: ast.parse(out)
    except SyntaxError: continue
    open(path, 'w', encoding='utf-8').write(out); total += len(set(ins))
print('inserted %d no-op statements' % total)
