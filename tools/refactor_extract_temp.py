#!/usr/bin/env python3
"""Behaviour-preserving refactoring for false-alarm testing ("extract variable"): in single-line assignments `x = A op B` at any
block level, where A is a call or parenthesised arithmetic, A is first stored in a new temporary on the preceding line.
A fraction of the candidates (seeded) is rewritten. In place; use on a scratch copy."""
import ast, sys, random, argparse
ap = argparse.ArgumentParser(); ap.add_argument('--fraction', type=float, default=0.3); ap.add_argument('--seed', type=int, default=1); ap.add_argument('files', nargs='+')
a = ap.parse_args()
rnd = random.Random(a.seed)
total = 0
for path in a.files:
    src = open(path, encoding='utf-8').read()
    try:
        tree = ast.parse(src)
    except SyntaxError:
        continue
    lines = src.splitlines(keepends=True)
    edits = []
    k = 0
    for fn in ast.walk(tree):
        if not isinstance(fn, ast.FunctionDef):
            continue
        if any(isinstance(n, ast.Call) and isinstance(n.func, ast.Name) and n.func.id in ('exec', 'eval', 'locals') for n in ast.walk(fn)):
            continue
        for st in ast.walk(fn):
            if isinstance(st, ast.Assign) and st.lineno == st.end_lineno and len(st.targets) == 1 and isinstance(st.targets[0], ast.Name) and isinstance(st.value, ast.BinOp) \
                    and isinstance(st.value.left, (ast.Call, ast.BinOp)) and st.value.left.lineno == st.lineno and rnd.random() < a.fraction:
                line = lines[st.lineno - 1]
                if line[:st.col_offset].strip() or ';' in line or line.rstrip().endswith('\\'):
                    continue
                if any(isinstance(n, (ast.Lambda, ast.ListComp, ast.GeneratorExp, ast.Yield, ast.NamedExpr)) for n in ast.walk(st.value)):
                    continue
                b = line.encode('utf-8')
                L = st.value.left
                seg = b[L.col_offset:L.end_col_offset].decode('utf-8')
                k += 1
                tmp = 'xtmp%d_' % k
                ind = line[:len(line) - len(line.lstrip())]
                new_line = (b[:L.col_offset] + tmp.encode() + b[L.end_col_offset:]).decode('utf-8')
                edits.append((st.lineno, '%s%s = %s\n%s' % (ind, tmp, seg, new_line)))
    for ln, new in sorted(set(edits), reverse=True):
        lines[ln - 1] = new
    out = ''.join(lines)
    try:
        ast.parse(out)
    except SyntaxError:
        continue
    open(path, 'w', encoding='utf-8').write(out)
    total += len(set(edits))
print('extracted %d temporaries' % total)
