#!/bin/bash
# Behaviour-preserving refactorings of a scratch worktree of /repo; every check must stay silent (exit 0) on each.
# usage: falsealarm_suite.sh [--with-tests]   (with --with-tests the 93 tests are also run on every refactored tree)
V=/verif; OUT=/tmp/fa_suite_$$; mkdir -p $OUT
FILES_PY() { git ls-files 'dadi/*.py' 'dadi/**/*.py' | grep -v "cuda\|TwoLocus\|Triallele"; }
CFILES="dadi/integration1D.c dadi/integration2D.c dadi/integration3D.c dadi/integration4D.c dadi/integration5D.c dadi/integration_shared.c dadi/tridiag.c dadi/DFE/PDFs.c"
declare -A CMD
CMD[rename_locals]="python3 $V/tools/rename_locals.py \$(FILES_PY)"
CMD[rename_c_locals]="python3 $V/tools/rename_c_locals.py $CFILES"
CMD[return_temp]="python3 $V/tools/refactor_return_temp.py \$(FILES_PY)"
CMD[extract_temp]="python3 $V/tools/refactor_extract_temp.py --fraction 0.5 \$(FILES_PY)"
CMD[insert_noop]="python3 $V/tools/refactor_insert_noop.py --fraction 0.15 \$(FILES_PY)"
CMD[swap_independent]="python3 $V/tools/refactor_swap_independent.py --fraction 1.0 \$(FILES_PY)"
CMD[commute]="python3 $V/tools/refactor_commute.py --fraction 0.6 \$(FILES_PY)"
CMD[add_param]="python3 $V/tools/refactor_add_param.py dadi/Integration.py dadi/PhiManip.py dadi/Numerics.py dadi/Inference.py dadi/Misc.py dadi/Godambe.py dadi/LowPass/LowPass.py dadi/DFE/Cache1D_mod.py dadi/DFE/Cache2D_mod.py dadi/Demes/Demes.py dadi/Spectrum_mod.py"
CMD[all_python]="python3 $V/tools/rename_locals.py \$(FILES_PY) && python3 $V/tools/refactor_commute.py --fraction 0.4 \$(FILES_PY) && python3 $V/tools/refactor_insert_noop.py --fraction 0.1 \$(FILES_PY) && python3 $V/tools/refactor_return_temp.py \$(FILES_PY)"
rc_all=0
for name in rename_locals rename_c_locals return_temp extract_temp insert_noop swap_independent commute add_param all_python; do
  W=$OUT/wt_$name
  git -C /repo worktree add --detach $W HEAD >/dev/null 2>&1 || { echo "$name: worktree failed"; continue; }
  ( cd $W && eval "${CMD[$name]}" ) > $OUT/$name.refactor.log 2>&1
  bad=""
  for i in $(seq -w 1 20); do
    ( VERIF_REPO=$W VERIF_EVIDENCE_DIR=$OUT/ev_$name timeout 900 python3-vt $V/check.py C$i > $OUT/$name.C$i.log 2>&1; echo $? > $OUT/$name.C$i.rc ) &
    if (( 10#$i % 10 == 0 )); then wait; fi
  done; wait
  for i in $(seq -w 1 20); do r=$(cat $OUT/$name.C$i.rc); if [ "$r" != "0" ]; then bad="$bad C$i(rc=$r)"; fi; done
  t=""
  if [ "$1" = "--with-tests" ]; then
    ( cd /repo && for f in $(git status --short --ignored | awk '/^!!/{print $2}' | grep -E '\.(so|c)$'); do mkdir -p "$W/$(dirname $f)"; cp -p "$f" "$W/$f"; done )
    if [ "$name" = "rename_c_locals" ]; then ( cd $W && INC="-I/root/.pyenv/versions/3.12.1/include/python3.12 -I/venv/lib/python3.12/site-packages/numpy/_core/include -Idadi -Idadi/DFE"; CF="-O3 -fPIC -shared -fno-strict-overflow -DNDEBUG -w"; SUF=.cpython-312-x86_64-linux-gnu.so; gcc $CF $INC dadi/integration_c.c dadi/integration1D.c dadi/integration2D.c dadi/integration3D.c dadi/integration4D.c dadi/integration5D.c dadi/integration_shared.c dadi/tridiag.c -o dadi/integration_c$SUF -lm; gcc $CF $INC dadi/tridiag_cython.c dadi/tridiag.c -o dadi/tridiag_cython$SUF -lm; gcc $CF $INC dadi/DFE/PDFs_cython.c -o dadi/DFE/PDFs_cython$SUF -lm ) >/dev/null 2>&1; fi
    t=" | tests: $(cd $W && timeout 3000 /venv/bin/python -m pytest -q -p no:cacheprovider --timeout=900 -n 8 --dist loadfile 2>&1 | tail -1)"
  fi
  echo "$name: $(tail -1 $OUT/$name.refactor.log) -> ${bad:-all 20 checks silent}$t"
  [ -n "$bad" ] && rc_all=1
  git -C /repo worktree remove --force $W >/dev/null 2>&1
done
rm -rf $OUT
exit $rc_all
