#!/usr/bin/env python3
"""Behaviour-preserving refactoring for false-alarm testing: swap adjacent single-line assignments to plain names that do not
depend on each other and contain no calls. In place; use on a scratch copy."""
import ast, sys, random, argparse
ap = argparse.ArgumentParser(); ap.add_argument('--fraction', type=float, default=0.5); ap.add_argument('--seed', type=int, default=1); ap.add_argument('files', nargs='+')
a = ap.parse_args(); rnd = random.Random(a.seed); total = 0
def names(n, ctx): return {x.id for x in ast.walk(n) if isinstance(x, ast.Name) and isinstance(x.ctx, ctx)}
for path in a.files:
    src = open(path, encoding='utf-8').read()
    try: tree = ast.parse(src)
    except SyntaxError: continue
    lines = src.splitlines(keepends=True); swaps = []; used = set()
    for node in ast.walk(tree):
        for fld in ('body', 'orelse'):
            blk = getattr(node, fld, None)
            if not isinstance(blk, list): continue
            for i in range(len(blk) - 1):
                x, y = blk[i], blk[i + 1]
                if not (isinstance(x, ast.Assign) and isinstance(y, ast.Assign)): continue
                if x.lineno != x.end_lineno or y.lineno != y.end_lineno or y.lineno != x.lineno + 1: continue
                if x.lineno in used or y.lineno in used: continue
                if not all(isinstance(t, ast.Name) for t in x.targets + y.targets): continue
                if any(isinstance(n, (ast.Call, ast.Subscript, ast.Attribute)) for n in list(ast.walk(x.value)) + list(ast.walk(y.value))): continue
                wx, wy = names(x, ast.Store), names(y, ast.Store); rx, ry = names(x, ast.Load), names(y, ast.Load)
                if wx & (wy | ry) or wy & rx: continue
                if ';' in lines[x.lineno - 1] or ';' in lines[y.lineno - 1]: continue
                if rnd.random() < a.fraction:
                    swaps.append((x.lineno, y.lineno)); used |= {x.lineno, y.lineno}
    for i, j in swaps:
        lines[i - 1], lines[j - 1] = lines[j - 1], lines[i - 1]
    out = ''.join(lines)
    try: ast.parse(out)
    except SyntaxError: continue
    open(path, 'w', encoding='utf-8').write(out); total += len(swaps)
print('swapped %d statement pairs' % total)
