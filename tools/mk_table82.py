#!/usr/bin/env python3
"""Rewrite the obligation counts and wall times of the table in DESIGN.md section 8.2 from /verif/evidence/Cxx.json (quick tier)."""
import json, os, re
HERE = os.path.dirname(os.path.dirname(os.path.abspath(__file__)))
p = os.path.join(HERE, 'DESIGN.md')
s = open(p).read()
for i in range(1, 21):
    cid = 'C%02d' % i
    ev = json.load(open(os.path.join(HERE, 'evidence', cid + '.json')))
    n = ev['coverage'].get('obligations', ev['coverage'].get('discharged'))
    t = ev.get('wall_s')
    m = re.search(r"^\| %s \| (.*?) \| (\d+) \| ([\d.]+ s) \|$" % cid, s, flags=re.M)
    if not m:
        print('row not found', cid)
        continue
    s = s[:m.start()] + "| %s | %s | %d | %.1f s |" % (cid, m.group(1), n, t) + s[m.end():]
open(p, 'w').write(s)
print('table 8.2 updated')
