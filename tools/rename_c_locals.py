#!/usr/bin/env python3
"""Behaviour-preserving refactoring for the hand-written C: rename the local variables declared inside each function body
(x -> x_r), leaving parameters, functions, macros and struct members alone.  In place; use on a scratch copy."""
import re, sys
sys.path.insert(0, __import__('os').path.dirname(__import__('os').path.dirname(__import__('os').path.abspath(__file__))))
TYPES = r'(?:double|int|float|long|unsigned|char|size_t)'
for path in sys.argv[1:]:
    src = open(path).read()
    out = []
    i = 0
    total = 0
    # find function bodies: name(params){ ... } at top level
    for m in re.finditer(r'^[A-Za-z_][\w \*]*?\b(\w+)\s*\(([^;{}]*)\)\s*\{', src, re.M):
        start = m.end()
        depth = 1
        j = start
        while j < len(src) and depth:
            depth += {'{': 1, '}': -1}.get(src[j], 0)
            j += 1
        body = src[start:j - 1]
        params = set(re.findall(r'(\w+)\s*(?:,|$)', re.sub(r'\[[^\]]*\]', '', m.group(2).replace('\n', ' '))))
        decl = set()
        for d in re.finditer(r'(?:^|[;{}])\s*' + TYPES + r'\b([^;()]*);', body):
            for v in d.group(1).split(','):
                v = v.split('=')[0]
                nm = re.sub(r'\[.*', '', v).replace('*', '').strip()
                if re.fullmatch(r'[A-Za-z_]\w*', nm):
                    decl.add(nm)
        decl -= params
        if not decl:
            continue
        new = re.sub(r'(?<![\w.>])(' + '|'.join(sorted(map(re.escape, decl), key=len, reverse=True)) + r')(?!\w)', lambda mm: mm.group(1) + '_r', body)
        total += len(decl)
        out.append((start, j - 1, new))
    for a, b, new in sorted(out, reverse=True):
        src = src[:a] + new + src[b:]
    open(path, 'w').write(src)
    print(path, 'renamed', total)
