#!/usr/bin/env python3
"""False-alarm regression: every directory under /verif/benign holds a behaviour-preserving refactoring written by an
independent sub-agent (patch.diff, its record/replay demo.py, meta.json).  Each is applied to a scratch worktree of /repo HEAD
under /tmp and all checks are run against it (VERIF_REPO); no check may print a VIOLATION (exit 1).  Exit 2 ("cannot decide:
restructured code") is reported separately.  Writes /verif/benign/BENIGN_MATRIX.json.  /repo itself is never modified.

usage: benign_matrix.py [--jobs N] [--only NAME ...] [--checks C01 ...]"""
import os, sys, json, argparse
sys.path.insert(0, os.path.dirname(os.path.abspath(__file__)))
import seed_matrix as sm
from concurrent.futures import ThreadPoolExecutor

VERIF = sm.VERIF


def main():
    ap = argparse.ArgumentParser()
    ap.add_argument('--jobs', type=int, default=8)
    ap.add_argument('--only', nargs='*')
    ap.add_argument('--checks', nargs='*', default=sm.ALL)
    a = ap.parse_args()
    sm.SEEDDIR[0] = os.path.join(VERIF, 'benign')
    names = sorted(d for d in os.listdir(sm.SEEDDIR[0]) if os.path.isfile(os.path.join(sm.SEEDDIR[0], d, 'patch.diff')))
    if a.only:
        names = [n for n in names if n in a.only]
    out = {}
    alarms = 0
    with ThreadPoolExecutor(a.jobs) as ex:
        for name, res in ex.map(lambda s: sm.run_seed(s, a.checks), names):
            out[name] = res
            if 'error' in res:
                print('%-40s ERROR %s' % (name, res['error']))
                continue
            alarm = [c for c, r in res.items() if r['rc'] == 1]
            undecided = [c for c, r in res.items() if r['rc'] not in (0, 1)]
            alarms += len(alarm)
            print('%-40s %s%s' % (name, 'FALSE ALARM: ' + ' '.join(alarm) if alarm else 'no alarm', ('   cannot decide: ' + ' '.join(undecided)) if undecided else ''))
            sys.stdout.flush()
    path = os.path.join(VERIF, 'benign', 'BENIGN_MATRIX.json')
    if not a.only and a.checks == sm.ALL:
        with open(path, 'w') as f:
            json.dump(out, f, indent=1, sort_keys=True)
            f.write('\n')
    elif os.path.exists(path):
        # a partial run (some checks / some patches) refreshes exactly the cells it computed
        old = json.load(open(path))
        for name, res in out.items():
            if 'error' not in res:
                old.setdefault(name, {}).update(res)
        with open(path, 'w') as f:
            json.dump(old, f, indent=1, sort_keys=True)
            f.write('\n')
    print('%d patches, %d false alarms' % (len(out), alarms))
    sys.exit(1 if alarms else 0)


if __name__ == '__main__':
    main()
