#!/usr/bin/env python3
"""Regenerate /verif/MANIFEST.json from the rule modules that exist (claimed) and properties.jsonl (the rest are
listed as not_applicable with the reason recorded in NOT_APPLICABLE below)."""
import json, os, sys, importlib
HERE = os.path.dirname(os.path.dirname(os.path.abspath(__file__)))
sys.path.insert(0, HERE)
NOT_APPLICABLE = {}
PENDING = "check not built yet in this commit of /verif (the design in DESIGN.md names the clauses that will be decided statically)"
props = [json.loads(l) for l in open(os.path.join(HERE, 'properties.jsonl'))]
base = json.load(open('/root/.vp/BASELINE.json'))
checks, na = [], []
for p in props:
    pid = p['id']
    path = os.path.join(HERE, 'rules', pid.lower() + '.py')
    if os.path.exists(path) and pid not in NOT_APPLICABLE:
        mod = importlib.import_module('rules.' + pid.lower())
        checks.append({
            'property_id': pid,
            'quick_cmd': 'python3-vt /verif/check.py %s --tier quick' % pid,
            'thorough_cmd': 'python3-vt /verif/check.py %s --tier thorough' % pid,
            'evidence_file': '/verif/evidence/%s.json' % pid,
            'replay_cmd_template': 'python3-vt /verif/check.py --replay {path}',
            'engine': 'sa',
            'level_claimed': {
                'category': 'other',
                'text': 'Static analysis of /repo source (no execution of dadi). ' + mod.EXPLANATION,
                'design_ref': 'DESIGN.md section 3, ' + pid,
            },
            'level_note': 'Decides the structural clauses named above for all run-time values; does not decide the numerical '
                          'behaviour itself. Trusted base: CPython ast, the /verif/sa front ends (Python model, C subset parser, '
                          'rational-function algebra), small tables of numpy/scipy library facts, and that the compiled '
                          'extensions are built from the analysed .c/.pyx sources. Declined clauses: '
                          + '; '.join(getattr(mod, 'DECLINED', [])),
            'technique': mod.TECHNIQUE,
        })
    else:
        na.append({'property_id': pid, 'reason': NOT_APPLICABLE.get(pid, PENDING)})
man = {
    'version': 1,
    'setup_cmd': 'python3-vt /verif/check.py --env-check',
    'hooks': {
        'guard': 'RYANGUTENKUNST_DADI_VERIF',
        'enable': 'none needed: the checks are static analyses of the source tree; no instrumentation exists in /repo and no source reads the guard variable',
        'baseline_off_cmd': base['cmd'],
        'source_commits': [],
        'add_only': True,
    },
    'engines': [{'name': 'sa', 'path': '/verif/sa', 'serves_properties': [c['property_id'] for c in checks],
                 'kind_free_text': 'repository-specific static analysis: Python program model (ast), statement-level dataflow, '
                                   'tag/typestate analysis, exact rational-function algebra, C-subset parser, sibling templates'}],
    'checks': checks,
    'not_applicable': na,
    'notes': 'Genuine defects found by the checks are repaired by fix: commits in /repo and recorded in /verif/known_findings.json.',
}
json.dump(man, open(os.path.join(HERE, 'MANIFEST.json'), 'w'), indent=1)
print('claimed:', [c['property_id'] for c in checks]); print('not applicable / pending:', [x['property_id'] for x in na])
