#!/usr/bin/env python3
"""usage: try_edit.py <file rel to /repo> <old> <new> Cxx [Cyy..] : one textual edit of /repo (must match exactly once), run checks, revert"""
import sys, subprocess, os
rel, old, new = sys.argv[1:4]
p = os.path.join('/repo', rel)
s = open(p).read()
if s.count(old) != 1:
    print('EDIT-ERROR: pattern occurs %d times' % s.count(old)); sys.exit(3)
open(p, 'w').write(s.replace(old, new))
try:
    for c in sys.argv[4:]:
        r = subprocess.run(['timeout', '300', 'python3-vt', '/verif/check.py', c], capture_output=True, text=True)
        for l in r.stdout.splitlines():
            if l.startswith(('VIOLATION', 'ANALYSIS-ERROR', '  FAILED', 'KNOWN')) or (l[:1] == 'C' and '[' in l[:12]):
                print(l[:300])
finally:
    open(p, 'w').write(s)
