#!/usr/bin/env python3
"""Entry point: python3-vt /verif/check.py Cxx --tier quick|thorough
Static analysis only: reads /repo's working tree, never imports or runs dadi.
exit 0 held / exit 1 VIOLATION / exit 2 ANALYSIS-ERROR."""
import sys, os, importlib, argparse, traceback, json
HERE = os.path.dirname(os.path.abspath(__file__))
sys.path.insert(0, HERE)
sys.dont_write_bytecode = True
sys.setrecursionlimit(10000)
from sa.report import Report, AnalysisError, REPO


def run_property(pid, tier):
    try:
        mod = importlib.import_module('rules.' + pid.lower())
    except ModuleNotFoundError:
        print('ANALYSIS-ERROR property=%s: no rule module' % pid)
        return 2
    from sa.srcmodel import Program
    rep = Report(pid, tier, explanation=getattr(mod, 'EXPLANATION', ''), technique=getattr(mod, 'TECHNIQUE', ''))
    rep.declined = list(getattr(mod, 'DECLINED', []))
    rep.assumptions = list(getattr(mod, 'ASSUMPTIONS', []))
    try:
        prog = Program()
        thorough = tier == 'thorough' and not os.environ.get('VERIF_NO_SELFTEST')
        if thorough:
            from sa import algebra
            algebra.PARANOID['on'] = True
            algebra.PARANOID['seed'] += int(os.environ.get('VERIF_SEED', '0') or 0)
        mod.run(rep, prog, tier)
        if thorough:
            from sa import algebra, selftest
            algebra.PARANOID['on'] = False
            rep.extra['algebra_crosscheck'] = {'identities_rechecked_by_exact_random_evaluation': algebra.PARANOID['checked'],
                                               'not_evaluable': algebra.PARANOID['skipped'], 'disagreements': len(algebra.PARANOID['disagreements'])}
            if algebra.PARANOID['disagreements']:
                raise AnalysisError('the algebra normaliser and exact random evaluation disagree on %d identities, e.g. %r'
                                    % (len(algebra.PARANOID['disagreements']), algebra.PARANOID['disagreements'][0]))
            from sa.report import load_known
            known_keys = {k.get('key') for k in load_known() if k.get('property') == pid and k.get('status') == 'known'}
            if not any((not o.ok) and o.key() not in known_keys for o in rep.obls):
                try:
                    st = selftest.sweep(pid, sorted(rep.analysed['functions']), seed=int(os.environ.get('VERIF_SEED', '0') or 0))
                except Exception as e:      # the sweep is an extra; its infrastructure never decides the verdict
                    st = {'error': '%s: %s' % (type(e).__name__, e)}
                rep.extra['sensitivity_sweep'] = st
                if 'error' not in st:
                    print('sensitivity sweep: seeds %d/%d reported, curated edits %d/%d reported, automatic mutants %d/%d reported (informational; %d generated)'
                          % (st['seeds']['reported'], st['seeds']['run'], st['curated']['reported'], st['curated']['run'],
                             st['auto']['reported'], st['auto']['run'], st['auto']['generated']))
                    for k in ('seeds', 'curated'):
                        for nme in st[k]['missed']:
                            print('SENSITIVITY-MISS property=%s %s %s' % (pid, k, nme))
        return rep.finish()
    except AnalysisError as e:
        print('ANALYSIS-ERROR property=%s: %s' % (pid, e))
        return 2
    except Exception as e:  # a crash of the analysis is never reported as a violation
        traceback.print_exc()
        print('ANALYSIS-ERROR property=%s: internal error %s: %s' % (pid, type(e).__name__, e))
        return 2


def env_check():
    import ast
    ok = True
    for modname in ('networkx', 'sympy'):
        try:
            importlib.import_module(modname)
        except Exception as e:
            print('env-check: optional module %s unavailable (%s)' % (modname, e))
    try:
        from sa.srcmodel import Program
        p = Program()
        print('env-check: parsed %d python modules under %s/dadi' % (len(p.modules), REPO))
        try:
            from sa import cfront
            n = cfront.parse_all(REPO)
            print('env-check: parsed %d C functions' % n)
        except ImportError:
            pass
    except AnalysisError as e:
        print('ANALYSIS-ERROR env-check: %s' % e)
        ok = False
    return 0 if ok else 2


def main():
    ap = argparse.ArgumentParser()
    ap.add_argument('prop', nargs='?')
    ap.add_argument('--tier', default=os.environ.get('VERIF_TIER', 'quick'), choices=['quick', 'thorough'])
    ap.add_argument('--env-check', action='store_true')
    ap.add_argument('--replay')
    ap.add_argument('--all', action='store_true')
    a = ap.parse_args()
    if a.env_check:
        return env_check()
    if a.replay:
        with open(a.replay) as f:
            r = json.load(f)
        pid = r['property']
        rc = run_property(pid, a.tier)
        want = {v['key'] for v in r.get('violations', [])}
        try:
            with open(os.path.join(HERE, 'evidence', pid + '.violation.json')) as f:
                now = {v['key'] for v in json.load(f).get('violations', [])} if rc == 1 else set()
        except OSError:
            now = set()
        for k in sorted(want):
            print('replay: %s %s' % ('STILL-FAILS' if k in now else 'no longer fails', k))
        return 1 if (want & now) else rc
    if a.all:
        rcs = {}
        for f in sorted(os.listdir(os.path.join(HERE, 'rules'))):
            if f.startswith('c') and f.endswith('.py') and f[1:3].isdigit():
                pid = f[:-3].upper()
                rcs[pid] = run_property(pid, a.tier)
        print('summary:', rcs)
        return max(rcs.values()) if rcs else 2
    if not a.prop:
        ap.error('property id required')
    return run_property(a.prop.upper(), a.tier)


if __name__ == '__main__':
    import signal
    try:
        signal.signal(signal.SIGPIPE, signal.SIG_DFL)
    except Exception:
        pass
    rc = main()
    sys.stdout.flush()
    os._exit(rc)
